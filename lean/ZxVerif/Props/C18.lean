/-
C18 — The AY chip turns any register history into the sound its registers define.

Only property theorems live here (helper lemmas: ZxVerif/Lemmas/Ay.lean).
Model  : ZxVerif/Model/Ay.lean  (integer core of aym/src/backends/precise.rs: generators, envelope
         tables, mixer gate / DAC index, write_register decoding, DAC and pan tables; the
         ZXAyChip register file of rustzx-core/src/zx/sound/ay.rs)
Spec   : ZxVerif/Spec/Ay.lean   (chip definition, DESIGN Appendix E "C18 envelope")
Time unit: one tick = one `update_mixer` = 8 chip clocks. "Reachable" = `Ay.init.run ops` for an
arbitrary list `ops` of register writes and ticks, i.e. every interleaving of writes with sample
generation. What is NOT here: the f64 interpolator / FIR decimator / DC filter (`process`), which
are observed by the harness only (finite, bounded) — see notes/C18.md.
-/
import ZxVerif.Lemmas.Ay
namespace ZxVerif.C18
open ZxVerif.Ay
open Spec (iter eff)

/-- **Tone, one channel.** For every channel state with period `P ≥ 1` (any counter value, so any
history of period changes) the output after `n` ticks is the start level toggled `events P c n`
times: first toggle when the counter reaches `P`, then exactly every `P` ticks. -/
theorem tone_period_chan (c : Chan) (hP : 1 ≤ c.tonePeriod) (n : Nat) :
    (iter Chan.tick n c).tone = (c.tone ^^ decide (events c.tonePeriod c.toneCounter n % 2 = 1)) := by
  rw [Chan.iter_tick]
  show (iter (divTick c.tonePeriod (!·)) n (c.toneCounter, c.tone)).2 = _
  rw [divider_events _ hP, iter_not]

/-- **Tone (`tone_period`).** In every reachable state, for each channel, with
`TP` the 12-bit value of its fine/coarse registers (0 acting as 1): during `n` further ticks
without register writes the channel's square wave toggles `events TP counter n` times — the first
toggle when the running counter reaches `TP`, afterwards exactly every `TP` ticks. A full period is
`2·TP` ticks = `16·TP` chip clocks, i.e. `f = f_clk / (16·TP)`. -/
theorem tone_period (ops : List Op) (n : Nat) :
    let s := Ay.init.run ops
    let tp (i : Nat) := eff (Spec.tonePeriodOf (s.regs (2 * i)) (s.regs (2 * i + 1)))
    (ticks n s).ch0.tone = (s.ch0.tone ^^ decide (events (tp 0) s.ch0.toneCounter n % 2 = 1)) ∧
    (ticks n s).ch1.tone = (s.ch1.tone ^^ decide (events (tp 1) s.ch1.toneCounter n % 2 = 1)) ∧
    (ticks n s).ch2.tone = (s.ch2.tone ^^ decide (events (tp 2) s.ch2.toneCounter n % 2 = 1)) := by
  intro s tp
  have hd := Decoded.run ops
  have hp := Ay.iter_tick_proj s n
  have heff : ∀ p, 1 ≤ eff p := by intro p; unfold eff; split <;> omega
  refine ⟨?_, ?_, ?_⟩
  · show (iter _ n s).ch0.tone = _
    rw [hp.1, tone_period_chan _ (by rw [hd.c0.period]; exact heff _), hd.c0.period]
  · show (iter _ n s).ch1.tone = _
    rw [hp.2.1, tone_period_chan _ (by rw [hd.c1.period]; exact heff _), hd.c1.period]
  · show (iter _ n s).ch2.tone = _
    rw [hp.2.2.1, tone_period_chan _ (by rw [hd.c2.period]; exact heff _), hd.c2.period]

/-- From a toggle (counter 0) the level follows the spec's square wave exactly: it has changed
`n / TP` times after `n` ticks. -/
theorem tone_square_wave (c : Chan) (tp : Nat) (h : c.tonePeriod = eff tp) (h0 : c.toneCounter = 0)
    (n : Nat) : (iter Chan.tick n c).tone = Spec.toneLevel c.tone tp n := by
  have heff : 1 ≤ eff tp := by unfold eff; split <;> omega
  rw [tone_period_chan c (by rw [h]; exact heff), h, h0]
  unfold Spec.toneLevel Spec.toneToggles events
  have : (0 : Nat) < eff tp := heff
  simp only [this, if_true, Nat.sub_zero]
  by_cases hn : n < eff tp
  · simp [hn, Nat.div_eq_of_lt hn]
  · simp only [hn, if_false]
    have e : n = eff tp + (n - eff tp) := by omega
    conv => rhs; rw [e, Nat.add_div_left _ heff]
    rw [Nat.add_comm 1]

/-- The three tone periods are decoded from the register pairs with the 12-bit mask and the
0→1 mapping, whatever the write order and whatever was written before. -/
theorem tone_period_decode (ops : List Op) :
    let s := Ay.init.run ops
    s.ch0.tonePeriod = eff (Spec.tonePeriodOf (s.regs 0) (s.regs 1)) ∧
    s.ch1.tonePeriod = eff (Spec.tonePeriodOf (s.regs 2) (s.regs 3)) ∧
    s.ch2.tonePeriod = eff (Spec.tonePeriodOf (s.regs 4) (s.regs 5)) :=
  ⟨(Decoded.run ops).c0.period, (Decoded.run ops).c1.period, (Decoded.run ops).c2.period⟩

/-- **Noise (`noise_clock`).** For every noise generator state with a written period (`NP ≥ 1`
after the 0→1 mapping) and a 17-bit LFSR value: after `n` ticks the shift register has been
clocked `events (2·NP) counter n` times — once every `2·NP` ticks — and each clock is one step of
the chip's 17-bit LFSR (feedback bit 0 xor bit 3), the output being its bit 0. -/
theorem noise_clock (s : Noise) (hP : 1 ≤ s.period) (hl : s.lfsr < 0x20000) (n : Nat) :
    let k := events (2 * s.period) s.counter n
    (iter Noise.tick n s).lfsr.truncate 17 = iter Spec.lfsr17 k (s.lfsr.truncate 17) ∧
    (iter Noise.tick n s).lfsr < 0x20000 ∧
    (iter Noise.tick n s).bit = (iter Spec.lfsr17 k (s.lfsr.truncate 17)).getLsbD 0 := by
  intro k
  rw [Noise.iter_tick]
  have h2 : (iter (divTick (s.period * 2) lfsrStep) n (s.counter, s.lfsr)).2 = iter lfsrStep k s.lfsr := by
    rw [divider_events _ (by omega), Nat.mul_comm]
  have hb := lfsr_iter_bound k s.lfsr hl
  refine ⟨?_, ?_, ?_⟩
  · show (iter (divTick (s.period * 2) lfsrStep) n (s.counter, s.lfsr)).2.truncate 17 = _
    rw [h2]; exact hb.2
  · show (iter (divTick (s.period * 2) lfsrStep) n (s.counter, s.lfsr)).2 < _
    rw [h2]; exact hb.1
  · show (iter (divTick (s.period * 2) lfsrStep) n (s.counter, s.lfsr)).2.getLsbD 0 = _
    rw [h2, ← hb.2]
    simp

/-- In every reachable state the LFSR holds a 17-bit value and the noise period is either still
the power-on 0 (R6 never written: the code then clocks the LFSR on every tick) or the decoded
5-bit register with 0 acting as 1. -/
theorem noise_reachable (ops : List Op) :
    let s := Ay.init.run ops
    s.noise.lfsr < 0x20000 ∧ (s.noise.period = 0 ∨ s.noise.period = eff ((s.regs 6).toNat % 32)) := by
  intro s
  refine ⟨?_, (Decoded.run ops).noise⟩
  have : ∀ (ops : List Op) (s : Ay), s.noise.lfsr < 0x20000 → (s.run ops).noise.lfsr < 0x20000 := by
    intro ops
    induction ops with
    | nil => intro s h; exact h
    | cons op ops ih =>
      intro s h
      apply ih
      cases op with
      | write a v =>
        show (s.writeReg a.toNat v).noise.lfsr < _
        unfold Ay.writeReg
        split
        · exact h
        · unfold Ay.decode; split <;> exact h
      | tick =>
        show s.noise.tick.lfsr < _
        unfold Noise.tick
        simp only
        split
        · exact (lfsrStep_eq_spec _ h).1
        · exact h
  exact this ops _ (by decide)

/-- **Envelope (`envelope_pattern`), generator level.** For all 16 shape codes (any byte written
to R13, taken modulo 16), every period `EP ≥ 1` and every `n`: `n` ticks after the shape write the
level is the chip definition's level at step `n / EP` — decay / attack first ramp, then
hold / repeat / alternate (each extreme held for two steps) — and the step-sampled sequence is
accepted by the adjudicating spec. -/
theorem envelope_pattern_env (e : Env) (hP : 1 ≤ e.period) (sh : Nat) (n : Nat) :
    (iter Env.tick n (e.setShape sh)).level = Spec.envLevel 2 (sh % 16) (n / e.period) := by
  have hs : sh % 16 < 16 := Nat.mod_lt _ (by omega)
  rw [Env.iter_tick]
  show (iter (divTick e.period (coreStep (sh % 16))) n
    (0, (false, if resetToMax (sh % 16) false then 31 else 0))).2.2 = _
  rw [divTick_iter _ hP _ n 0 _ (by omega), Nat.zero_add]
  show (iter (coreStep (sh % 16)) (n / e.period) _).2 = _
  rw [coreClosed_iter _ hs]
  rfl

/-- **Envelope (`envelope_pattern`).** In every reachable state, writing any byte `v` to R13
restarts the envelope, and `n` ticks later (no further writes) the level is
`envLevel (v mod 16) (n / EP)` with `EP` the 16-bit period registers (0 acting as 1): one step
per `EP` ticks, so one ramp of 32 steps lasts `32·EP` ticks = `256·EP` chip clocks, the data
sheet's envelope period `256·EP / f_clk`. -/
theorem envelope_pattern (ops : List Op) (v : BitVec 8) (n : Nat) :
    let s := Ay.init.run ops
    let ep := eff ((s.regs 11).toNat + 256 * (s.regs 12).toNat)
    (ticks n (s.writeRegister 13 v)).env.level = Spec.envLevel 2 (v.toNat % 16) (n / ep) := by
  intro s ep
  have hd := Decoded.run ops
  have hp := Ay.iter_tick_proj (s.writeRegister 13 v) n
  unfold ticks
  rw [hp.2.2.2.2.1]
  have hw : (s.writeRegister 13 v).env = s.env.setShape ((v.toNat) % 16) := by
    show (s.writeReg 13 v).env = _
    simp [Ay.writeReg, Ay.decode, upd]
  have heff : 1 ≤ ep := by show 1 ≤ eff _; unfold eff; split <;> omega
  rw [hw, envelope_pattern_env _ (by rw [hd.envPeriod]; exact heff), hd.envPeriod]
  simp only [Nat.mod_mod]
  rfl

/-- the sequence of levels sampled once per envelope step is accepted by the adjudicating spec,
for every shape and every length -/
theorem envelope_accepted (shape : Nat) (len : Nat) :
    Spec.envAccepts shape ((List.range len).map (Spec.envLevel 2 shape)) = true := by
  simp [Spec.envAccepts]

/-- **DAC (`dac_strict_mono`).** In both tables the amplitude grows strictly with the 4-bit volume
(`index = 2·vol + 1`), never decreases along the 32 envelope levels, and lies in `[0, 1]`
(values scaled by 10^14); both tables have 32 entries. -/
theorem dac_strict_mono :
    (∀ ym : Bool, (dacTable ym).length = 32) ∧
    (∀ ym : Bool, ∀ vol < 15, (dacTable ym).getD (2 * vol + 1) 0 < (dacTable ym).getD (2 * (vol + 1) + 1) 0) ∧
    (∀ ym : Bool, ∀ i < 31, (dacTable ym).getD i 0 ≤ (dacTable ym).getD (i + 1) 0) ∧
    (∀ ym : Bool, ∀ i < 32, (dacTable ym).getD i 0 ≤ dacScale) ∧
    (∀ i < 30, dacYM.getD (i + 1) 0 < dacYM.getD (i + 2) 0) := by
  decide

/-- **Mixer (`mixer_gate`).** In every reachable state the DAC index of each channel produced by
a tick is the chip definition's: `(tone ∨ R7.tone_off) ∧ (noise ∨ R7.noise_off)` gates the
amplitude, which is the envelope level if bit 4 of the channel's volume register is set and
`2·vol + 1` otherwise — with R7 and R8–R10 as currently stored, for all 64 mixer masks and all
volume bytes. -/
theorem mixer_gate (ops : List Op) :
    let s := Ay.init.run ops
    let s' := (Ay.tick s).1
    (Ay.tick s).2 =
      (Spec.channelIndex (s.regs 7) (s.regs 8) 0 s'.ch0.tone s'.noise.bit s'.env.level,
       Spec.channelIndex (s.regs 7) (s.regs 9) 1 s'.ch1.tone s'.noise.bit s'.env.level,
       Spec.channelIndex (s.regs 7) (s.regs 10) 2 s'.ch2.tone s'.noise.bit s'.env.level) := by
  intro s s'
  have hd := Decoded.run ops
  have key : ∀ (i : Nat) (hi : i < 3) (c : Chan), ChanDecoded s.regs i c → ∀ nb lvl,
      c.tick.out nb lvl = Spec.channelIndex (s.regs 7) (s.regs (8 + i)) i c.tick.tone nb lvl := by
    intro i hi c hc nb lvl
    have hp := Chan.tick_params c
    unfold Chan.out Spec.channelIndex Spec.amplitudeIndex
    rw [hp.2.1, hp.2.2.1, hp.2.2.2.1, hp.2.2.2.2, hc.toneOff, hc.noiseOff, hc.envEnabled, hc.volume,
      bit_eq_div _ _ (by omega), bit8_eq_div _ _ hi, bit10_eq_div]
    simp only
    split <;> split <;> simp_all <;> omega
  show (s.ch0.tick.out s.noise.tick.bit s.env.tick.level, s.ch1.tick.out s.noise.tick.bit s.env.tick.level,
    s.ch2.tick.out s.noise.tick.bit s.env.tick.level) = _
  rw [key 0 (by omega) _ hd.c0, key 1 (by omega) _ hd.c1, key 2 (by omega) _ hd.c2]
  rfl

/-- The `assert!(out < 32)` of `update_mixer` never fires: in every reachable state all three DAC
indices are inside the 32-entry table. -/
theorem dac_index_in_table (ops : List Op) :
    let o := (Ay.tick (Ay.init.run ops)).2
    o.1 < 32 ∧ o.2.1 < 32 ∧ o.2.2 < 32 := by
  intro o
  have hd := Decoded.run ops
  have hl := (Env.tick_params (Ay.init.run ops).env hd.envLevel).2.2
  have key : ∀ (i : Nat) (c : Chan), ChanDecoded (Ay.init.run ops).regs i c → ∀ nb lvl, lvl ≤ 31 →
      c.tick.out nb lvl < 32 := by
    intro i c hc nb lvl hlvl
    have hp := Chan.tick_params c
    unfold Chan.out
    rw [hp.2.2.2.2, hc.volume]
    simp only
    have : ((Ay.init.run ops).regs (8 + i)).toNat % 16 < 16 := Nat.mod_lt _ (by omega)
    split <;> split <;> omega
  exact ⟨key 0 _ hd.c0 _ _ hl, key 1 _ hd.c1 _ _ hl, key 2 _ hd.c2 _ _ hl⟩

/-- **Pan (`pan_table`).** For all 7 stereo modes and all 3 channels the squared gains the code
assigns (`pan_left² = 1 - pan`, `pan_right² = pan`, in halves) are those of the placement tabulated
in `aym/src/lib.rs`: left only, right only, or both with equal power. -/
theorem pan_table (m : Mode) (ch : Nat) (h : ch < 3) :
    (2 - pan2Of m ch, pan2Of m ch) = Spec.gains2 (Spec.placement m ch) := by
  have : ch = 0 ∨ ch = 1 ∨ ch = 2 := by omega
  rcases this with h | h | h <;> subst h <;> cases m <;> rfl

/-! ### the register file behind ports 0xFFFD / 0xBFFD -/

/-- **Read-back (`readback`).** After any history of port operations (register selects and data
writes in any order) reading the data port returns exactly the value last written to the selected
register (0 if it was never written) — which the property's read-back relation (value, or value
masked to the implemented bits) accepts. -/
theorem readback (ops : List Spec.PortOp) :
    (Chip.run {} ops).read = (Spec.RegFile.run {} ops).last (Spec.RegFile.run {} ops).selected ∧
    Spec.readAccepts (Spec.RegFile.run {} ops) (Chip.run {} ops).read = true := by
  have h := chip_refines ops
  have e : (Chip.run {} ops).read = (Spec.RegFile.run {} ops).last (Spec.RegFile.run {} ops).selected := by
    unfold Chip.read; rw [h.2, h.1]
  refine ⟨e, ?_⟩
  unfold Spec.readAccepts
  rw [e]
  simp

/-- **Register numbers wrap modulo 16 (`reg_wrap_mod16`).** Selecting `v` and selecting any `w`
with `w ≡ v (mod 16)` leave the chip in the same state; the selected register is `v mod 16 < 16`. -/
theorem reg_wrap_mod16 (c : Chip) (v w : BitVec 8) (h : v.toNat % 16 = w.toNat % 16) :
    (c.selectReg v).currentReg = (c.selectReg w).currentReg ∧
    (c.selectReg v).currentReg = v.toNat % 16 ∧ (c.selectReg v).currentReg < 16 := by
  refine ⟨?_, ?_, ?_⟩
  · show (v &&& 0x0F).toNat = (w &&& 0x0F).toNat
    rw [and15_eq_mod, and15_eq_mod, h]
  · exact and15_eq_mod v
  · show (v &&& 0x0F).toNat < 16
    rw [and15_eq_mod]; exact Nat.mod_lt _ (by omega)

/-- Every data write reaches the sound generator: after any port history the generator's own
register copy agrees with the port-visible file on R0–R13 (writes to R14/R15 are ignored by it). -/
theorem chip_feeds_generator (ops : List Spec.PortOp) (r : Nat) (hr : r < 14) :
    (Chip.run {} ops).ay.regs r = (Chip.run {} ops).regs r := by
  have : ∀ (ops : List Spec.PortOp) (c : Chip), c.currentReg < 16 → (∀ r < 14, c.ay.regs r = c.regs r) →
      (∀ r < 14, (Chip.run c ops).ay.regs r = (Chip.run c ops).regs r) := by
    intro ops
    induction ops with
    | nil => intro c _ h; exact h
    | cons op ops ih =>
      intro c hc h
      cases op with
      | select v =>
        exact ih _ (by show (v &&& 0x0F).toNat < 16; rw [and15_eq_mod]; exact Nat.mod_lt _ (by omega)) h
      | write v =>
        refine ih (c.write v) hc ?_
        intro r hr
        show ((c.ay.writeRegister (BitVec.ofNat 8 c.currentReg) v).regs r) = upd c.regs c.currentReg v r
        have hcur : (BitVec.ofNat 8 c.currentReg).toNat = c.currentReg := by
          simp [BitVec.toNat_ofNat]; omega
        unfold Ay.writeRegister Ay.writeReg
        rw [hcur]
        by_cases h14 : c.currentReg ≥ 14
        · have : r ≠ c.currentReg := by omega
          simp [h14, upd, this, h r hr]
        · simp only [h14, if_false]
          have hreg : ∀ (s : Ay) (a : Nat), (Ay.decode s a).regs = s.regs := by
            intro s a; unfold Ay.decode; split <;> rfl
          rw [hreg]
          simp only [upd]
          split
          · rfl
          · exact h r hr
  exact this ops {} (by decide) (fun _ _ => rfl) r hr

/-! Non-vacuity: concrete histories on which the statements say something. -/

/-- TP = 3 on channel A, 7 ticks: toggles at ticks 3 and 6 -/
example : (ticks 7 (Ay.init.run [.write 0 3, .write 1 0])).ch0.tone = false ∧
    (ticks 6 (Ay.init.run [.write 0 3, .write 1 0])).ch0.tone = false ∧
    (ticks 5 (Ay.init.run [.write 0 3, .write 1 0])).ch0.tone = true := by decide

set_option maxRecDepth 16384 in
/-- shape 10 (\/\/), EP = 1: levels at steps 30..34 and 62..65 -/
example : ([30, 31, 32, 33, 34, 62, 63, 64, 65].map fun n =>
    (ticks n (Ay.init.run [.write 11 1, .write 13 10])).env.level) = [1, 0, 0, 1, 2, 30, 31, 31, 30] := by
  decide

set_option maxRecDepth 16384 in
/-- tone off + noise off on A (R7 = 0x09), volume 15: constant index 31; with the envelope bit
and shape 13 (attack, hold top) the index is the level -/
example : (Ay.tick (Ay.init.run [.write 7 0x09, .write 8 0x0F])).2.1 = 31 ∧
    (Ay.tick (ticks 40 (Ay.init.run [.write 7 0x09, .write 8 0x1F, .write 13 13]))).2.1 = 31 ∧
    (Ay.tick (ticks 4 (Ay.init.run [.write 7 0x09, .write 8 0x1F, .write 13 13]))).2.1 = 5 := by decide

example : (Chip.run {} [.select 0x17, .write 0xAB, .select 0x07]).read = 0xAB := by decide

end ZxVerif.C18
