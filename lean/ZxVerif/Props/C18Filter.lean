/-
C18, partial part — bounds for the filter chain of AymPrecise over ℚ (`fir_bounded_Q` of DESIGN §8).

These theorems are about the ℚ-model ZxVerif/Model/AyFilter.lean (interpolator, FIR decimator, DC
filter written with integer numerators over fixed denominators), NOT about the f64 code: they say
what the formulas of `process`/`decimate`/`apply_dc_filter_for_sample` do in exact arithmetic. The
real pipeline is observed by the harness to respect the resulting bound (and the FIR table is compared
with the source text on every run). Note the hypothesis `0 ≤ a < b` of `interp_bounded_Q`: the
interpolation position must stay in [0,1) — exactly what `process` fails to maintain for sample
rates below f_clk/64 (finding C18/signal.low-rate), where the observed samples are unbounded.
-/
import ZxVerif.Lemmas.AyFilter
namespace ZxVerif.C18
open ZxVerif.Ay.Filter

/-- **FIR (`fir_bounded_Q`).** For all tap values within `[-B, B]` the decimator output is within
`ℓ1·B`, where `ℓ1 = 1.7742385746012528858572` is the sum of the absolute values of the 169 non-zero
coefficients (everything × 10^22). -/
theorem fir_bounded_Q (x : Nat → Int) (B : Int) (hx : ∀ i, -B ≤ x i ∧ x i ≤ B) :
    -(firL1 * B) ≤ decimate x ∧ decimate x ≤ firL1 * B ∧
    firL1 = 17742385746012528858572 := by
  have hp := pairs_bound firPairs x B hx
  have h96 := hx 96
  have hl : firL1 = 17742385746012528858572 := by decide +kernel
  have hc : (0 : Int) ≤ firCenter := by unfold firCenter; norm_num
  have c1 : firCenter * x 96 ≤ firCenter * B := mul_le_mul_of_nonneg_left h96.2 hc
  have c2 : firCenter * (-B) ≤ firCenter * x 96 := mul_le_mul_of_nonneg_left h96.1 hc
  refine ⟨?_, ?_, hl⟩
  · unfold decimate firL1; linarith [hp.1, c2]
  · unfold decimate firL1; linarith [hp.2, c1]

/-- **Interpolator.** For levels `0 ≤ y_i ≤ M` and a position `a/b ∈ [0,1)` the interpolated value
lies in `[-M, 2M]` (stated × 4·b²). -/
theorem interp_bounded_Q (y0 y1 y2 y3 M a b : Int)
    (h0 : 0 ≤ y0 ∧ y0 ≤ M) (h1 : 0 ≤ y1 ∧ y1 ≤ M) (h2 : 0 ≤ y2 ∧ y2 ≤ M) (h3 : 0 ≤ y3 ∧ y3 ≤ M)
    (ha : 0 ≤ a) (hab : a < b) :
    -(4 * M * (b * b)) ≤ interp4 y0 y1 y2 y3 a b ∧ interp4 y0 y1 y2 y3 a b ≤ 8 * M * (b * b) := by
  have hM : 0 ≤ M := by linarith [h0.1, h0.2]
  have hp : 0 ≤ a * a := mul_nonneg ha ha
  have hq : 0 ≤ a * b := mul_nonneg ha (by linarith)
  have hpr : a * a ≤ b * b := by nlinarith
  have hqr : a * b ≤ b * b := by nlinarith
  have e : interp4 y0 y1 y2 y3 a b =
      (y3 - y1 - (y2 - y0)) * (a * a) + 2 * (y2 - y0) * (a * b) + (2 * y1 + (y0 + y2)) * (b * b) := by
    unfold interp4; ring
  rw [e]
  have k1u : (y3 - y1 - (y2 - y0)) * (a * a) ≤ 2 * M * (b * b) := by
    nlinarith [mul_nonneg (show 0 ≤ 2 * M - (y3 - y1 - (y2 - y0)) by linarith [h0.2, h3.2, h1.1, h2.1]) hp,
      mul_nonneg (show 0 ≤ 2 * M by linarith) (show 0 ≤ b * b - a * a by linarith)]
  have k1l : -(2 * M * (b * b)) ≤ (y3 - y1 - (y2 - y0)) * (a * a) := by
    nlinarith [mul_nonneg (show 0 ≤ (y3 - y1 - (y2 - y0)) + 2 * M by linarith [h0.1, h3.1, h1.2, h2.2]) hp,
      mul_nonneg (show 0 ≤ 2 * M by linarith) (show 0 ≤ b * b - a * a by linarith)]
  have k2u : 2 * (y2 - y0) * (a * b) ≤ 2 * M * (b * b) := by
    nlinarith [mul_nonneg (show 0 ≤ 2 * M - 2 * (y2 - y0) by linarith [h0.1, h2.2]) hq,
      mul_nonneg (show 0 ≤ 2 * M by linarith) (show 0 ≤ b * b - a * b by linarith)]
  have k2l : -(2 * M * (b * b)) ≤ 2 * (y2 - y0) * (a * b) := by
    nlinarith [mul_nonneg (show 0 ≤ 2 * (y2 - y0) + 2 * M by linarith [h0.2, h2.1]) hq,
      mul_nonneg (show 0 ≤ 2 * M by linarith) (show 0 ≤ b * b - a * b by linarith)]
  have hr : 0 ≤ b * b := by nlinarith
  have k3u : (2 * y1 + (y0 + y2)) * (b * b) ≤ 4 * M * (b * b) := by
    nlinarith [mul_nonneg (show 0 ≤ 4 * M - (2 * y1 + (y0 + y2)) by linarith [h0.2, h1.2, h2.2]) hr]
  have k3l : 0 ≤ (2 * y1 + (y0 + y2)) * (b * b) :=
    mul_nonneg (by linarith [h0.1, h1.1, h2.1]) hr
  constructor <;> linarith

/-- **DC filter.** With the current input and the 1024 most recent inputs within `[-B, B]` the
filtered sample `x - mean` is within `2B` (stated × 1024). -/
theorem dc_bounded_Q (x B : Int) (window : List Int) (hlen : window.length = 1024)
    (hx : -B ≤ x ∧ x ≤ B) (hw : ∀ d ∈ window, -B ≤ d ∧ d ≤ B) :
    -(2048 * B) ≤ dc1024 x window ∧ dc1024 x window ≤ 2048 * B := by
  have hs := sum_bound window B hw
  rw [hlen] at hs
  norm_num at hs
  unfold dc1024
  constructor <;> nlinarith [hs.1, hs.2, hx.1, hx.2]

/-- **The numbers the harness adjudicates with.** Pre-filter sums are at most `3·√½ ≤ 2.1214`
(three channels at centre pan, DAC values ≤ 1); interpolation at most doubles that, the FIR
multiplies by at most `ℓ1 < 1.7743`: `2 · 2.1214 · 1.7743 < 8`, and `< 16` after the DC filter. -/
theorem chain_bound_numbers :
    (9 * 10000 * 10000 : Int) ≤ 2 * (21214 * 21214) ∧
    firL1 < 17743 * 1000000000000000000 ∧
    2 * 21214 * 17743 < 8 * 10000 * 10000 := by
  have hl : firL1 = 17742385746012528858572 := by decide +kernel
  refine ⟨by norm_num, by rw [hl]; norm_num, by norm_num⟩

/-! Non-vacuity: a concrete tap vector (all ones) gives the DC gain 0.99997…. -/
example : decimate (fun _ => 1) = 9999709124111909161988 := by decide +kernel

example : interp4 0 1 1 0 1 2 = 14 := by decide

end ZxVerif.C18
