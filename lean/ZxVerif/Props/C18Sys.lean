/-
C18 (system level) — the port clause and the generator clause of C18 for *every program*.

Props/C18.lean proves the chip's behaviour for *lists* of operations: port histories
(`readback`, `reg_wrap_mod16`, `chip_feeds_generator`) and histories of register writes interleaved
with ticks (`tone_period`, `noise_clock`, `envelope_pattern`, `mixer_gate`, …). Here the operations
are the ones a Z80 program performs: `Z80.emulate` runs on the bus `AyZX` (Lemmas/AyBus.lean) = the
machine bus `Spectrum.ZX` plus the chip model `Ay.Chip`; `write_io` applies `Chip.selectReg` /
`Chip.write` exactly when `writeDecode` routes the port to the AY select / AY data device and
records the operation in the ghost history `hist` (oldest first; `AyZX.writeIo_hist`).

* `AyZX.zx` is a bus homomorphism (`zx_hom`), so by the second free theorem of the CPU model
  (Lemmas/Z80Hom.lean) every program goes through the same CPU states on `AyZX` as on `ZX` and the
  `zx` component of the run *is* the run on `ZX` (`machine_is_zx_run`). The statements below are
  therefore about the machine model `ZX` that the other system-level theorems and the lock-step
  correspondence (harness/src/sys.rs) use: `z` is always `(Z80.run v n (s, z0)).2` on `ZX`.
* The invariant `Good` is carried through every instruction by the closure theorem
  `Z80.BusClosed.run` (Lemmas/Z80Closed.lean): all opcode pages, interrupts, port reads, both machines,
  any keyboard / joystick / mouse configuration, any memory contents, any CPU state, any run length.
* Sample generation: while a program runs the real machine produces audio samples, each of which
  ticks the generator a number of times that depends on floating-point resampling (not modelled).
  `sched k` = the number of generator ticks between the (k-1)-th and the k-th AY data write of the
  run is an *arbitrary* function; every theorem holds for all of them ("arbitrary interleavings of
  register writes with sample generation"). `fun _ => 0` = no samples: then the chip is literally
  `Chip.run {} hist` (`chip_is_fold_when_silent`).

Start states: any machine state `z0` (memory, paging, clock, keyboard, joystick, mouse, EAR …
arbitrary) whose AY part is at power-on (`AyPowerOn`: register 0 selected, all registers 0) — in
particular `ZX.new k kempston mouse` for both machines and all four controller configurations.
Snapshot loads into the AY (`ZXAyChip::set_regs`) belong to C14 and are not a start state here.
-/
import ZxVerif.Lemmas.AyBus
import ZxVerif.Props.C18
namespace ZxVerif.C18Sys
open ZxVerif.Z80 ZxVerif.Machine ZxVerif.Spectrum ZxVerif.Ay
open ZxVerif.Ay.Spec (PortOp RegFile eff iter)

/-- the AY part of a machine state is at power-on -/
def AyPowerOn (z : ZX) : Prop := z.ayReg = 0 ∧ z.ayRegs = fun _ => 0

/-- power-on of either machine with any controller configuration -/
theorem ayPowerOn_new (k : Kind) (kempston mouse : Bool) : AyPowerOn (ZX.new k kempston mouse) := ⟨rfl, rfl⟩

/-- the machine with its chip after `n` instructions of whatever program is in memory -/
def after (v : Variant) (n : Nat) (s : Cpu) (z0 : ZX) (sched : Nat → Nat) : AyZX :=
  (Z80.run v n (s, AyZX.start z0 sched)).2

/-- the generator operations (register writes and ticks, oldest first) a port history amounts to
under a sample-generation schedule -/
def genOps (sched : Nat → Nat) (hist : List PortOp) : List Op := interleave sched 0 (portWrites 0 hist)

/-- **Adding the chip changes nothing for the program.** The CPU state after any program is the same
on `AyZX` as on the machine bus, and the machine component of the run on `AyZX` is the run on the
machine bus `ZX` — whatever the sample-generation schedule. -/
theorem machine_is_zx_run (v : Variant) (n : Nat) (s : Cpu) (z0 : ZX) (sched : Nat → Nat) :
    (Z80.run v n (s, AyZX.start z0 sched)).1 = (Z80.run v n (s, z0)).1 ∧
    (after v n s z0 sched).zx = (Z80.run v n (s, z0)).2 :=
  run_zx v n s (AyZX.start z0 sched)

/-- the facts every theorem below starts from -/
theorem after_good (v : Variant) (n : Nat) (s : Cpu) (z0 : ZX) (sched : Nat → Nat) (h0 : AyPowerOn z0) :
    Good (after v n s z0 sched) ∧ (after v n s z0 sched).sched = sched ∧
    (after v n s z0 sched).zx = (Z80.run v n (s, z0)).2 :=
  ⟨(program_keeps_good v n s _ (Good.start z0 sched h0.1 h0.2)).1,
   (program_keeps_good v n s _ (Good.start z0 sched h0.1 h0.2)).2,
   (machine_is_zx_run v n s z0 sched).2⟩

/-- **The port history is the program's, not the schedule's.** The ghost history of a run does not
depend on the sample-generation schedule (nor on anything else about the chip): it is the history
recorded by the machine bus with the ghost alone (`HistZX`). -/
theorem history_independent_of_schedule (v : Variant) (n : Nat) (s : Cpu) (z0 : ZX) (sched sched' : Nat → Nat) :
    (after v n s z0 sched).hist = (after v n s z0 sched').hist ∧
    (after v n s z0 sched).hist = (Z80.run v n (s, HistZX.mk z0 [])).2.hist := by
  have h : ∀ sc, (after v n s z0 sc).hist = (Z80.run v n (s, HistZX.mk z0 [])).2.hist :=
    fun sc => run_hist v n s (AyZX.start z0 sc)
  exact ⟨(h sched).trans (h sched').symm, h sched⟩

/-- **What the ghost records.** A port write appends one entry to the history exactly when
`writeDecode` routes it to the AY select device (`select v`) or the AY data device (`write v`), with
the byte as the CPU put it on the bus; no other bus operation touches the history. -/
theorem history_records_ay_port_writes (p : BitVec 16) (d : BitVec 8) (x : AyZX) :
    (Bus.writeIo p d x).hist =
      (match writeDecode x.zx.cfg p with
       | .aySelect => x.hist ++ [.select d]
       | .ayData => x.hist ++ [.write d]
       | _ => x.hist) ∧
    (∀ a k, (Bus.waitMreq a k x).hist = x.hist) ∧ (∀ a k, (Bus.waitNoMreq a k x).hist = x.hist) ∧
    (∀ k, (Bus.waitInternal k x).hist = x.hist) ∧ (∀ a, (Bus.readInternal a x).2.hist = x.hist) ∧
    (∀ a b, (Bus.writeInternal a b x).hist = x.hist) ∧ (∀ q, (Bus.readIo q x).2.hist = x.hist) ∧
    (Bus.readInterrupt x).2.hist = x.hist ∧ (Bus.reti x).hist = x.hist ∧
    (∀ on, (Bus.halt on x).hist = x.hist) ∧ (∀ a, (Bus.pcCallback a x).hist = x.hist) :=
  ⟨AyZX.writeIo_hist p d x, fun _ _ => rfl, fun _ _ => rfl, fun _ => rfl, fun _ => rfl, fun _ _ => rfl,
   fun _ => rfl, rfl, rfl, fun _ => rfl, fun _ => rfl⟩

/-! ### chip = fold of the port history -/

/-- **The chip is the fold of what the program did on the AY ports.** After any program the chip's
register latch and shadow file are those of `Chip.run {} hist` (the chip model folded over the ghost
history of the program's AY port operations), and its generator is `Ay.init` run over the
history's register writes with the schedule's ticks in between — so the list theorems of
Props/C18.lean apply to what the program did. -/
theorem chip_is_fold_of_port_history (v : Variant) (n : Nat) (s : Cpu) (z0 : ZX) (sched : Nat → Nat)
    (h0 : AyPowerOn z0) :
    let x := after v n s z0 sched
    x.chip.currentReg = (Chip.run {} x.hist).currentReg ∧ x.chip.regs = (Chip.run {} x.hist).regs ∧
    x.chip.ay = Ay.init.run (genOps sched x.hist) := by
  intro x
  obtain ⟨g, hs, _⟩ := after_good v n s z0 sched h0
  refine ⟨g.latch, g.file, ?_⟩
  have := g.gen
  rw [hs] at this
  exact this

/-- … and literally so when no samples are generated in between: `chip = Chip.run {} hist`. -/
theorem chip_is_fold_when_silent (v : Variant) (n : Nat) (s : Cpu) (z0 : ZX) (h0 : AyPowerOn z0) :
    let x := after v n s z0 (fun _ => 0)
    x.chip = Chip.run {} x.hist := by
  intro x
  obtain ⟨h1, h2, h3⟩ := chip_is_fold_of_port_history v n s z0 (fun _ => 0) h0
  refine Chip.ext' _ _ h1 h2 ?_
  rw [h3, Chip.run_ay]
  show Ay.run _ (interleave (fun _ => 0) 0 _) = _
  rw [interleave_zero]
  rfl

/-! ### machine file = chip file -/

/-- **The machine's AY fields are the chip's.** `ZX.ayReg` / `ZX.ayRegs` (the AY latch and file of the
machine model, transcribed from `ZXController`) and `Chip.currentReg` / `Chip.regs` (transcribed
from `ZXAyChip`) are two independent transcriptions of the same Rust state; after every program they
are equal. -/
theorem machine_file_is_chip_file (v : Variant) (n : Nat) (s : Cpu) (z0 : ZX) (sched : Nat → Nat)
    (h0 : AyPowerOn z0) :
    let x := after v n s z0 sched
    let z := (Z80.run v n (s, z0)).2
    z.ayReg = x.chip.currentReg ∧ z.ayRegs = x.chip.regs := by
  intro x z
  obtain ⟨g, _, hz⟩ := after_good v n s z0 sched h0
  show (Z80.run v n (s, z0)).2.ayReg = _ ∧ (Z80.run v n (s, z0)).2.ayRegs = _
  rw [← hz]
  exact ⟨g.zxLatch, g.zxFile⟩

/-! ### the port clause -/

/-- ports 0xFFFD / 0xBFFD are the AY's on every machine state: reads of 0xFFFD go to the selected
register, writes to 0xFFFD select, writes to 0xBFFD are data — both machines, with or without
Kempston joystick and mouse -/
theorem ay_ports (z : ZX) :
    readDecode z.cfg 0xFFFD = .ay ∧ writeDecode z.cfg 0xFFFD = .aySelect ∧ writeDecode z.cfg 0xBFFD = .ayData := by
  have : ∀ (k : Kind) (ke mo : Bool), readDecode ⟨k, ke, mo, false⟩ 0xFFFD = .ay ∧
      writeDecode ⟨k, ke, mo, false⟩ 0xFFFD = .aySelect ∧ writeDecode ⟨k, ke, mo, false⟩ 0xBFFD = .ayData := by
    intro k ke mo; cases k <;> cases ke <;> cases mo <;> decide
  exact this _ _ _

/-- a read of a port that `readDecode` routes to the AY returns the selected register of the file -/
theorem readIo_ay (z : ZX) (p : BitVec 16) (hp : readDecode z.cfg p = .ay) :
    (Bus.readIo p z).1 = z.ayRegs z.ayReg := by
  show (ZX.readIo p z).1 = _
  simp only [ZX.readIo, hp]

/-- **Read-back (`readback`) for every program.** After any program, an `IN` from a port routed to
the AY (0xFFFD, or any port with A15 = A14 = 1, A1 = 0 that no other device claims) returns exactly
the value the program last wrote to the register it last selected (0 if it never wrote it; register 0
if it never selected one) — as computed by the property's own register-file spec from the program's
port history — which the property's read-back relation accepts. -/
theorem readback_every_program (v : Variant) (n : Nat) (s : Cpu) (z0 : ZX) (sched : Nat → Nat)
    (h0 : AyPowerOn z0) (p : BitVec 16) :
    let x := after v n s z0 sched
    let z := (Z80.run v n (s, z0)).2
    let f := RegFile.run {} x.hist
    readDecode z.cfg p = .ay →
    (Bus.readIo p z).1 = f.last f.selected ∧ Spec.readAccepts f (Bus.readIo p z).1 = true := by
  intro x z f hp
  obtain ⟨g, _, _⟩ := after_good v n s z0 sched h0
  obtain ⟨m1, m2⟩ := machine_file_is_chip_file v n s z0 sched h0
  have hr : (Bus.readIo p z).1 = (Chip.run {} x.hist).read := by
    rw [readIo_ay z p hp]
    show (Z80.run v n (s, z0)).2.ayRegs (Z80.run v n (s, z0)).2.ayReg = _
    rw [m1, m2]
    show x.chip.regs x.chip.currentReg = (Chip.run {} x.hist).regs (Chip.run {} x.hist).currentReg
    rw [g.latch, g.file]
  rw [hr]
  exact C18.readback x.hist

/-- **Register numbers wrap modulo 16 (`reg_wrap_mod16`) for every program.** After any program the
selected register is the value of the program's last write to the select port taken modulo 16 (the
spec's `selected`), it is below 16, and a further `OUT` of `a` or of any `b ≡ a (mod 16)` to a
select port leaves chip and machine in the same AY state, selecting register `a mod 16`. -/
theorem reg_wrap_mod16_every_program (v : Variant) (n : Nat) (s : Cpu) (z0 : ZX) (sched : Nat → Nat)
    (h0 : AyPowerOn z0) (p : BitVec 16) (a b : BitVec 8) (hab : a.toNat % 16 = b.toNat % 16) :
    let x := after v n s z0 sched
    let z := (Z80.run v n (s, z0)).2
    z.ayReg = (RegFile.run {} x.hist).selected ∧ z.ayReg < 16 ∧
    (writeDecode z.cfg p = .aySelect →
      (Bus.writeIo p a x).chip = (Bus.writeIo p b x).chip ∧
      (Bus.writeIo p a z).ayReg = (Bus.writeIo p b z).ayReg ∧ (Bus.writeIo p a z).ayReg = a.toNat % 16 ∧
      (Bus.writeIo p a z).ayRegs = z.ayRegs) := by
  intro x z
  obtain ⟨g, _, hz⟩ := after_good v n s z0 sched h0
  obtain ⟨m1, _⟩ := machine_file_is_chip_file v n s z0 sched h0
  have m1' : z.ayReg = x.chip.currentReg := m1
  refine ⟨?_, ?_, ?_⟩
  · rw [m1', g.latch]; exact (chip_refines x.hist).1
  · rw [m1']; exact g.lt16
  · intro hp
    have hp' : writeDecode x.zx.cfg p = .aySelect := by rw [hz]; exact hp
    have e : ∀ c : BitVec 8, (Bus.writeIo p c x).chip = x.chip.selectReg c := by
      intro c
      show (x.device p c).chip = _
      simp only [AyZX.device, hp']
    have ez : ∀ c : BitVec 8, (Bus.writeIo p c z).ayReg = (c &&& 0x0F).toNat ∧ (Bus.writeIo p c z).ayRegs = z.ayRegs := by
      intro c
      have := ZX.writeIo_ay p c z
      rw [hp] at this
      exact this
    refine ⟨?_, ?_, ?_, (ez a).2⟩
    · rw [e, e]; exact selectReg_congr _ _ _ hab
    · rw [(ez a).1, (ez b).1, and15_eq_mod, and15_eq_mod, hab]
    · rw [(ez a).1, and15_eq_mod]

/-- … and for whole histories: two runs (any programs, machines, CPU states; the same
sample-generation schedule) whose port histories agree up to the upper four bits of the register
numbers leave their chips — register file, latch and generator — in the same state. A program that
selects register `r + 16·j` drives the sound exactly as one that selects `r`. -/
theorem reg_alias_same_chip (v v' : Variant) (n n' : Nat) (s s' : Cpu) (z0 z0' : ZX) (sched : Nat → Nat)
    (h0 : AyPowerOn z0) (h0' : AyPowerOn z0') :
    let x := after v n s z0 sched
    let x' := after v' n' s' z0' sched
    congr16 x.hist x'.hist → x.chip = x'.chip := by
  intro x x' h
  obtain ⟨a1, a2, a3⟩ := chip_is_fold_of_port_history v n s z0 sched h0
  obtain ⟨b1, b2, b3⟩ := chip_is_fold_of_port_history v' n' s' z0' sched h0'
  have e := Chip.run_congr16 {} _ _ h
  refine Chip.ext' _ _ ?_ ?_ ?_
  · rw [a1, b1, e]
  · rw [a2, b2, e]
  · rw [a3, b3]
    show Ay.run _ (interleave sched 0 (portWrites 0 _)) = Ay.run _ (interleave sched 0 (portWrites 0 _))
    rw [portWrites_congr16 0 _ _ h]

/-! ### every register write reaches the generator -/

/-- **Every data write reaches the sound generator (`chip_feeds_generator`) for every program.**
After any program the generator is the power-on generator run over exactly the program's register
writes — each data write as a write to the register selected at that moment, register numbers
modulo 16, in program order, of which the generator ignores those to R14/R15 — with the schedule's
ticks in between; and its own copy of R0–R13 is the machine's port-visible file. -/
theorem every_write_reaches_generator (v : Variant) (n : Nat) (s : Cpu) (z0 : ZX) (sched : Nat → Nat)
    (h0 : AyPowerOn z0) :
    let x := after v n s z0 sched
    let z := (Z80.run v n (s, z0)).2
    x.chip.ay = Ay.init.run ((genOps sched x.hist).filter Op.relevant) ∧
    (∀ r < 14, x.chip.ay.regs r = z.ayRegs r) := by
  intro x z
  obtain ⟨g, _, _⟩ := after_good v n s z0 sched h0
  obtain ⟨_, m2⟩ := machine_file_is_chip_file v n s z0 sched h0
  refine ⟨?_, ?_⟩
  · rw [Ay.run_filter_relevant]
    exact (chip_is_fold_of_port_history v n s z0 sched h0).2.2
  · intro r hr
    have m2' : z.ayRegs = x.chip.regs := m2
    rw [m2']
    exact g.feeds r hr

/-- without samples in between: the generator is the power-on generator run over the program's writes
to R0–R13 alone -/
theorem every_write_reaches_generator_silent (v : Variant) (n : Nat) (s : Cpu) (z0 : ZX) (h0 : AyPowerOn z0) :
    let x := after v n s z0 (fun _ => 0)
    x.chip.ay = Ay.init.run ((portWrites 0 x.hist).filter Op.relevant) := by
  intro x
  have := (every_write_reaches_generator v n s z0 (fun _ => 0) h0).1
  show (after v n s z0 (fun _ => 0)).chip.ay = _
  rw [this]
  show Ay.run _ ((interleave (fun _ => 0) 0 _).filter _) = _
  rw [interleave_zero]

/-! ### the generator clause: between port writes the generator only ticks -/

/-- **Tone (`tone_period`) for every program.** Let `g` be the generator a program has programmed
(any program, any sample generation while it ran). During `m` further ticks without AY writes each
channel's square wave toggles `events TP counter m` times — the first toggle when the running
counter reaches `TP`, afterwards exactly every `TP` ticks — where `TP` is the 12-bit value of the
channel's fine/coarse registers *in the machine's port-visible file* (0 acting as 1): a full period
is `2·TP` ticks = `16·TP` chip clocks, `f = f_clk / (16·TP)`. -/
theorem tone_after_program (v : Variant) (n : Nat) (s : Cpu) (z0 : ZX) (sched : Nat → Nat)
    (h0 : AyPowerOn z0) (m : Nat) :
    let g := (after v n s z0 sched).chip.ay
    let z := (Z80.run v n (s, z0)).2
    let tp (i : Nat) := eff (Spec.tonePeriodOf (z.ayRegs (2 * i)) (z.ayRegs (2 * i + 1)))
    (ticks m g).ch0.tone = (g.ch0.tone ^^ decide (events (tp 0) g.ch0.toneCounter m % 2 = 1)) ∧
    (ticks m g).ch1.tone = (g.ch1.tone ^^ decide (events (tp 1) g.ch1.toneCounter m % 2 = 1)) ∧
    (ticks m g).ch2.tone = (g.ch2.tone ^^ decide (events (tp 2) g.ch2.toneCounter m % 2 = 1)) := by
  intro g z tp
  have hg : g = Ay.init.run (genOps sched (after v n s z0 sched).hist) :=
    (chip_is_fold_of_port_history v n s z0 sched h0).2.2
  have hr := (every_write_reaches_generator v n s z0 sched h0).2
  have h := C18.tone_period (genOps sched (after v n s z0 sched).hist) m
  simp only [] at h
  rw [← hg] at h
  show _ = (_ ^^ decide (events (eff (Spec.tonePeriodOf (z.ayRegs (2 * 0)) (z.ayRegs (2 * 0 + 1)))) _ _ % 2 = 1)) ∧
    _ = (_ ^^ decide (events (eff (Spec.tonePeriodOf (z.ayRegs (2 * 1)) (z.ayRegs (2 * 1 + 1)))) _ _ % 2 = 1)) ∧
    _ = (_ ^^ decide (events (eff (Spec.tonePeriodOf (z.ayRegs (2 * 2)) (z.ayRegs (2 * 2 + 1)))) _ _ % 2 = 1))
  rw [← hr (2 * 0) (by omega), ← hr (2 * 0 + 1) (by omega), ← hr (2 * 1) (by omega), ← hr (2 * 1 + 1) (by omega),
    ← hr (2 * 2) (by omega), ← hr (2 * 2 + 1) (by omega)]
  exact h

/-- **Noise (`noise_clock`) for every program.** The generator a program has programmed holds a
17-bit LFSR value; its noise period is the decoded 5-bit R6 of the machine's file (0 acting as 1)
as soon as the program has written R6 at least once (before that it is the power-on 0 of the code:
the LFSR is then clocked on every tick). Once programmed, during `m` further ticks the shift
register is clocked `events (2·NP) counter m` times — once every `2·NP` ticks — each clock being one
step of the chip's 17-bit LFSR (feedback bit 0 xor bit 3), the output its bit 0. -/
theorem noise_after_program (v : Variant) (n : Nat) (s : Cpu) (z0 : ZX) (sched : Nat → Nat)
    (h0 : AyPowerOn z0) (m : Nat) :
    let x := after v n s z0 sched
    let g := x.chip.ay
    let z := (Z80.run v n (s, z0)).2
    let np := eff ((z.ayRegs 6).toNat % 32)
    g.noise.lfsr < 0x20000 ∧ (g.noise.period = 0 ∨ g.noise.period = np) ∧
    ((∃ w, Op.write 6 w ∈ portWrites 0 x.hist) → g.noise.period = np) ∧
    (g.noise.period = np →
      let k := events (2 * np) g.noise.counter m
      (ticks m g).noise.lfsr.truncate 17 = iter Spec.lfsr17 k (g.noise.lfsr.truncate 17) ∧
      (ticks m g).noise.lfsr < 0x20000 ∧
      (ticks m g).noise.bit = (iter Spec.lfsr17 k (g.noise.lfsr.truncate 17)).getLsbD 0) := by
  intro x g z np
  have hg : g = Ay.init.run (genOps sched x.hist) := (chip_is_fold_of_port_history v n s z0 sched h0).2.2
  have hr := (every_write_reaches_generator v n s z0 sched h0).2 6 (by omega)
  have h := C18.noise_reachable (genOps sched x.hist)
  simp only [] at h
  rw [← hg] at h
  have hreg : g.regs 6 = z.ayRegs 6 := hr
  rw [hreg] at h
  have hnp : 1 ≤ np := by show 1 ≤ eff _; unfold eff; split <;> omega
  refine ⟨h.1, h.2, ?_, ?_⟩
  · intro ⟨w, hw⟩
    have : 1 ≤ g.noise.period := by
      rw [hg]
      exact noise_period_programmed _ _ (Or.inr ⟨w, mem_interleave _ _ _ _ hw⟩)
    rcases h.2 with h0 | h1
    · omega
    · exact h1
  · intro hp
    have hc := C18.noise_clock g.noise (by rw [hp]; exact hnp) h.1 m
    simp only [] at hc
    rw [hp] at hc
    have hproj : (ticks m g).noise = iter Noise.tick m g.noise := (Ay.iter_tick_proj g m).2.2.2.1
    rw [hproj]
    exact hc

/-- **Envelope (`envelope_pattern`) for every program.** After any program that has register 13
selected, the program's next `OUT` of any byte `w` to a data port restarts the envelope, and `m`
ticks after that write (no further AY writes) the level is the chip definition's
`envLevel (w mod 16) (m / EP)` — decay / attack first ramp, then hold / repeat / alternate — with
`EP` the 16-bit period registers R11/R12 of the machine's file (0 acting as 1): one step per `EP`
ticks, a 32-step ramp lasts `256·EP` chip clocks. -/
theorem envelope_after_program (v : Variant) (n : Nat) (s : Cpu) (z0 : ZX) (sched : Nat → Nat)
    (h0 : AyPowerOn z0) (p : BitVec 16) (w : BitVec 8) (m : Nat) :
    let x := after v n s z0 sched
    let z := (Z80.run v n (s, z0)).2
    let ep := eff ((z.ayRegs 11).toNat + 256 * (z.ayRegs 12).toNat)
    writeDecode z.cfg p = .ayData → z.ayReg = 13 →
    (ticks m (Bus.writeIo p w x).chip.ay).env.level = Spec.envLevel 2 (w.toNat % 16) (m / ep) := by
  intro x z ep hp h13
  obtain ⟨g, _, hz⟩ := after_good v n s z0 sched h0
  obtain ⟨m1, _⟩ := machine_file_is_chip_file v n s z0 sched h0
  have hg : x.chip.ay = Ay.init.run (genOps sched x.hist) := (chip_is_fold_of_port_history v n s z0 sched h0).2.2
  have hr := (every_write_reaches_generator v n s z0 sched h0).2
  have hp' : writeDecode x.zx.cfg p = .ayData := by rw [hz]; exact hp
  have hcur : x.chip.currentReg = 13 := by rw [← h13]; exact m1.symm
  -- the chip after the write: the schedule's ticks, then `write_register(13, w)`
  let k := x.sched x.dataWrites
  have e : (Bus.writeIo p w x).chip.ay = (ticks k x.chip.ay).writeRegister 13 w := by
    show (x.device p w).chip.ay = _
    simp only [AyZX.device, hp']
    show (ticks k x.chip.ay).writeRegister (BitVec.ofNat 8 x.chip.currentReg) w = _
    rw [hcur]
    rfl
  have ht : ticks k x.chip.ay = Ay.init.run (genOps sched x.hist ++ List.replicate k Op.tick) := by
    rw [Ay.run_append, Ay.run_ticks, ← hg]
  have h := C18.envelope_pattern (genOps sched x.hist ++ List.replicate k Op.tick) w m
  simp only [] at h
  rw [← ht, ticks_regs] at h
  rw [e, h]
  have e11 : x.chip.ay.regs 11 = z.ayRegs 11 := hr 11 (by omega)
  have e12 : x.chip.ay.regs 12 = z.ayRegs 12 := hr 12 (by omega)
  rw [e11, e12]

/-- **Mixer (`mixer_gate`) for every program.** The DAC indices the next tick of the generator a
program has programmed produces are the chip definition's, from R7 and R8–R10 of the machine's
file: `(tone ∨ tone_off) ∧ (noise ∨ noise_off)` gates the amplitude, which is the envelope level
if bit 4 of the volume register is set and `2·vol + 1` otherwise; all three stay inside the
32-entry DAC table. -/
theorem mixer_after_program (v : Variant) (n : Nat) (s : Cpu) (z0 : ZX) (sched : Nat → Nat)
    (h0 : AyPowerOn z0) :
    let g := (after v n s z0 sched).chip.ay
    let z := (Z80.run v n (s, z0)).2
    let g' := (Ay.tick g).1
    (Ay.tick g).2 =
      (Spec.channelIndex (z.ayRegs 7) (z.ayRegs 8) 0 g'.ch0.tone g'.noise.bit g'.env.level,
       Spec.channelIndex (z.ayRegs 7) (z.ayRegs 9) 1 g'.ch1.tone g'.noise.bit g'.env.level,
       Spec.channelIndex (z.ayRegs 7) (z.ayRegs 10) 2 g'.ch2.tone g'.noise.bit g'.env.level) ∧
    (Ay.tick g).2.1 < 32 ∧ (Ay.tick g).2.2.1 < 32 ∧ (Ay.tick g).2.2.2 < 32 := by
  intro g z g'
  have hg : g = Ay.init.run (genOps sched (after v n s z0 sched).hist) :=
    (chip_is_fold_of_port_history v n s z0 sched h0).2.2
  have hr := (every_write_reaches_generator v n s z0 sched h0).2
  have h := C18.mixer_gate (genOps sched (after v n s z0 sched).hist)
  have hd := C18.dac_index_in_table (genOps sched (after v n s z0 sched).hist)
  simp only [] at h hd
  rw [← hg] at h hd
  have e7 : g.regs 7 = z.ayRegs 7 := hr 7 (by omega)
  have e8 : g.regs 8 = z.ayRegs 8 := hr 8 (by omega)
  have e9 : g.regs 9 = z.ayRegs 9 := hr 9 (by omega)
  have e10 : g.regs 10 = z.ayRegs 10 := hr 10 (by omega)
  rw [e7, e8, e9, e10] at h
  exact ⟨h, hd⟩

/-! ### Non-vacuity: a program that programs the chip -/

/-- memory image: bytes stored from `a` on through the CPU's own `write_internal` -/
def load (z : ZX) (a : BitVec 16) : List (BitVec 8) → ZX
  | [] => z
  | b :: t => load (Bus.writeInternal a b z) (a + 1) t

/-- `LD BC,0xFFFD ; LD A,sel ; OUT (C),A ; LD B,0xBF ; LD A,0x0F ; OUT (C),A` — select register `sel`
through 0xFFFD, write 0x0F to it through 0xBFFD (six instructions) -/
def prog (sel : BitVec 8) : List (BitVec 8) :=
  [0x01, 0xFD, 0xFF, 0x3E, sel, 0xED, 0x79, 0x06, 0xBF, 0x3E, 0x0F, 0xED, 0x79]

/-- the power-on machine (Kempston mouse attached) with the program at 0x8000 -/
def demo (k : Kind) (sel : BitVec 8) : ZX := load (ZX.new k false true) 0x8000 (prog sel)

/-- the hypotheses of the theorems are met: storing a program leaves the AY at power-on -/
example (k : Kind) (sel : BitVec 8) : AyPowerOn (demo k sel) := ⟨rfl, rfl⟩

/-- the bus at work (kernel evaluation of six `emulate` calls on the 48K): the ghost history is the two
port operations of the program, the chip has register 8 selected and holds 0x0F in it, the machine's
own AY fields say the same, the write has reached the generator (volume of channel A = 15), and an
`IN` from 0xFFFD reads 0x0F back -/
example : let x := after .hw 6 { pc := 0x8000 } (demo .k48 8) (fun _ => 0)
    x.hist = [.select 8, .write 0x0F] ∧ x.chip.currentReg = 8 ∧ x.chip.regs 8 = 0x0F ∧
    x.zx.ayReg = 8 ∧ x.zx.ayRegs 8 = 0x0F ∧ x.chip.ay.regs 8 = 0x0F ∧ x.chip.ay.ch0.volume = 15 ∧
    (Bus.readIo 0xFFFD x.zx).1 = 0x0F ∧ x.dataWrites = 1 ∧
    portWrites 0 x.hist = [.write 8 0x0F] := by
  decide +kernel

/-- the same on the 128K with an aliased register number (`sel = 0x18 ≡ 8 mod 16`): the history keeps
the byte as written, the chip selects register 8 and the generator's channel A gets its volume -/
example : let x := after .hw 6 { pc := 0x8000 } (demo .k128 0x18) (fun _ => 0)
    x.hist = [.select 0x18, .write 0x0F] ∧ x.chip.currentReg = 8 ∧ x.zx.ayReg = 8 ∧
    x.chip.ay.ch0.volume = 15 ∧ portWrites 0 x.hist = [.write 8 0x0F] := by
  decide +kernel

/-- with sample generation in between (five generator ticks before the data write): same history, same
registers; the tone flip-flop of channel A (power-on period 1) has toggled five times -/
example : let x := after .hw 6 { pc := 0x8000 } (demo .k48 8) (fun _ => 5)
    x.hist = [.select 8, .write 0x0F] ∧ x.chip.ay.ch0.volume = 15 ∧ x.chip.ay.ch0.tone = true ∧
    genOps (fun _ => 5) x.hist = [.tick, .tick, .tick, .tick, .tick, .write 8 0x0F] := by
  decide +kernel

/-- the theorems instantiated on the program: whatever the schedule, an `IN` from 0xFFFD after the six
instructions returns what the register-file spec computes from the program's history -/
example (k : Kind) (sel : BitVec 8) (sched : Nat → Nat) :
    let x := after .hw 6 { pc := 0x8000 } (demo k sel) sched
    let z := (Z80.run .hw 6 ({ pc := 0x8000 }, demo k sel)).2
    (Bus.readIo 0xFFFD z).1 = (RegFile.run {} x.hist).last (RegFile.run {} x.hist).selected :=
  ((readback_every_program .hw 6 { pc := 0x8000 } (demo k sel) sched ⟨rfl, rfl⟩ 0xFFFD) (ay_ports _).1).1

/-- histories that differ in the upper bits of a register number are `congr16` -/
example : congr16 [.select 0x18, .write 0x0F] [.select 0x08, .write 0x0F] :=
  ⟨(by decide : (0x18 : BitVec 8).toNat % 16 = (0x08 : BitVec 8).toNat % 16), rfl, trivial⟩

end ZxVerif.C18Sys
