/-
C18 — theorems over the AY tables *extracted from the Rust source on every run*
(tools/extract.py → ZxVerif/Extracted/AyTables.lean): the DAC tables and the envelope shape tables
in aym/src/backends/precise.rs are the model's.
-/
import ZxVerif.Extracted.AyTables
import ZxVerif.Model.Ay
namespace ZxVerif.C18X
open ZxVerif.Ay

/-- `AY_DAC_TABLE` and `YM_DAC_TABLE` (× 10^14) are the model's -/
theorem dac_tables_extracted : Extracted.dacAY = dacAY ∧ Extracted.dacYM = dacYM := by decide

def fnCode : EnvFn → Nat
  | .slideDown => 0 | .slideUp => 1 | .holdTop => 2 | .holdBottom => 3

/-- `ENVELOPES` and `ENVELOPE_RESET_TO_MAX` are the model's, for all 16 shapes and both segments -/
theorem envelope_tables_extracted :
    Extracted.envelopes = (List.range 16).map (fun s => (fnCode (envelopes s false), fnCode (envelopes s true))) ∧
    Extracted.resetToMax = (List.range 16).map (fun s => (resetToMax s false, resetToMax s true)) := by decide

/-- both DAC tables (as they stand in the source) grow strictly with the 4-bit volume: entry
`2v+1` (the index a fixed volume `v` selects) is strictly increasing in `v` -/
theorem dac_extracted_monotone :
    (∀ v, v < 15 → Extracted.dacAY.getD (2 * v + 1) 0 < Extracted.dacAY.getD (2 * (v + 1) + 1) 0) ∧
    (∀ v, v < 15 → Extracted.dacYM.getD (2 * v + 1) 0 < Extracted.dacYM.getD (2 * (v + 1) + 1) 0) := by
  constructor <;> intro v hv <;>
    (have : v = 0 ∨ v = 1 ∨ v = 2 ∨ v = 3 ∨ v = 4 ∨ v = 5 ∨ v = 6 ∨ v = 7 ∨ v = 8 ∨ v = 9 ∨ v = 10 ∨
        v = 11 ∨ v = 12 ∨ v = 13 ∨ v = 14 := by omega
     rcases this with h | h | h | h | h | h | h | h | h | h | h | h | h | h | h <;> subst h <;> decide)

end ZxVerif.C18X
