/-
C18 — theorems over the AY register *dispatch* translated from the Rust source on every run
(tools/extract.py, table AyDispatch → ZxVerif/Extracted/AyDispatch.lean): `AymPrecise::write_register`
(the guard against register numbers ≥ `AY_REGISTER_COUNT`, the store into the generator's own register copy,
the `match` from register number to setter with the masks on the way: `r[1] & 0x0f` …, `& 0x1f`, the mixer
bit tests, `& 0x0F`), the setters themselves (`set_tone` & 0xFFF, `set_noise` & 0x1F, 0 acting as 1,
`set_mixer`, `set_volume` & 0x0F, `set_envelope`, `set_envelope_shape` & 0x0F with its counter / segment
reset and `reset_segment`), `ZXAyChip::select_reg` (`& 0x0F`), `write` (store, then forward to the
generator) and `read` (sound/ay.rs), and the three AY port functions of the controller — statement by
statement.

What the source text says now is what the hand-written model `Model/Ay.lean` runs: the translated dispatch
equals `Ay.writeRegister` for every generator state, every register number 0…255 and every value (it never
reaches `unreachable!()`), the translated chip equals the model's `Chip` operation by operation, hence the
port clause of Props/C18.lean (read-back, numbers modulo 16, every write reaches the generator) is a theorem
about the statements as they stand in the source. A mask, a shift, a register number, a channel index or
the order of store and forward changed there breaks a theorem here.
-/
import ZxVerif.Extracted.AyDispatch
import ZxVerif.Props.C18
import ZxVerif.Props.C18X
namespace ZxVerif.C18Y
open ZxVerif.Ay
open ZxVerif.Extracted

/-! ### the source's state seen as the model's -/

/-- a `ToneChannel` of the source over a model channel `c` (which supplies what register writes never
touch: counter and output level) -/
def absChan (x : AyDispatch.Chan) (c : Chan) : Chan :=
  { c with tonePeriod := x.tone_period.toNat, toneOff := decide (x.tone_off_bit ≠ 0),
           noiseOff := decide (x.noise_off_bit ≠ 0), envEnabled := x.envelope_enabled, volume := x.volume }

/-- the generator fields of the source over a model state `m` (which supplies the tone counters and
levels, the noise counter and shift register) -/
def absGen (g : AyDispatch.Gen) (m : Ay) : Ay :=
  { ch0 := absChan (g.channels 0) m.ch0, ch1 := absChan (g.channels 1) m.ch1, ch2 := absChan (g.channels 2) m.ch2,
    noise := { m.noise with period := g.noise_period.toNat },
    env := { counter := g.envelope_counter.toNat, period := g.envelope_period.toNat, shape := g.envelope_shape,
             segment := decide (g.envelope_segment ≠ 0), level := g.envelope },
    regs := g.registers }

/-- `ZXAyChip` of the source as the model's `Chip` -/
def absChip (c : AyDispatch.Chip) (m : Ay) : Chip :=
  { currentReg := c.current_reg, regs := c.regs, ay := absGen c.ay m }

/-! ### arithmetic of the masks -/

/-- `x & 0x0F`, `& 0x1F`, `& 0xFFF` on `usize` / after `toNat` are remainders -/
theorem and_masks (x : Nat) : x &&& 15 = x % 16 ∧ x &&& 31 = x % 32 ∧ x &&& 4095 = x % 4096 :=
  ⟨Nat.and_two_pow_sub_one_eq_mod x 4, Nat.and_two_pow_sub_one_eq_mod x 5, Nat.and_two_pow_sub_one_eq_mod x 12⟩

/-- `(period == 0) as u16 | period`: 0 acts as 1 -/
theorem zero_as_one (p : BitVec 16) :
    ((if (p == 0) then (1 : BitVec 16) else 0) ||| p).toNat = if p.toNat = 0 then 1 else p.toNat := by
  by_cases h : p = 0#16
  · subst h; rfl
  · have h' : p.toNat ≠ 0 := fun e => h (BitVec.eq_of_toNat_eq e)
    have hb : (p == 0) = false := by simp [h]
    rw [hb]
    simp [h']

/-- a mask test of the source (`(r & m) != 0`) is the model's `bit` -/
theorem test_is_bit (v m : BitVec 8) : ((v &&& m) != 0) = bit v m.toNat := by
  unfold bit
  rw [← BitVec.toNat_and]
  by_cases h : v &&& m = 0#8
  · rw [h]; rfl
  · have h' : (v &&& m).toNat ≠ 0 := fun e => h (BitVec.eq_of_toNat_eq e)
    have hb : ((v &&& m) != 0) = true := by simp [h]
    rw [hb]
    exact (decide_eq_true h').symm

/-- the source's `set8` is the model's `upd` -/
theorem set8_eq_upd : @AyDispatch.set8 = @upd := rfl

/-- … and `(r & m) == 0` its negation -/
theorem ntest_is_bit (v m : BitVec 8) : ((v &&& m) == 0) = !bit v m.toNat := by
  rw [← test_is_bit]; simp [bne]

/-- the tone period word handed to `set_tone`: `u16::from_le_bytes([lo, hi & 0x0f])` is `lo + 256·(hi mod 16)` -/
theorem tone_word (lo hi : BitVec 8) :
    (BitVec.ofNat 16 (lo.toNat + 256 * (hi.toNat % 16))).toNat = lo.toNat + 256 * (hi.toNat % 16) := by
  have h1 := lo.isLt
  rw [BitVec.toNat_ofNat]
  omega

/-- the noise period handed to `set_noise`: `(r6 & 0x1f) as u16` is `r6 mod 32` -/
theorem noise_word (r6 : BitVec 8) : ((r6 &&& 31).setWidth 16).toNat = r6.toNat % 32 := by
  revert r6; decide

/-- the envelope period word: `u16::from_le_bytes([r11, r12])` is `r11 + 256·r12`, all 16 bits -/
theorem env_word (lo hi : BitVec 8) :
    (BitVec.ofNat 16 (lo.toNat + 256 * hi.toNat)).toNat = lo.toNat + 256 * hi.toNat := by
  have h1 := lo.isLt
  have h2 := hi.isLt
  rw [BitVec.toNat_ofNat]; omega

/-- volume and shape handed on: `(r & 0x0F) as usize` is `r mod 16` -/
theorem nibble_word (r : BitVec 8) : (r &&& 15).toNat = r.toNat % 16 := and15_eq_mod r

/-- the mixer bit tests of `write_register` are the model's `bit`s -/
theorem mix_bits (x : BitVec 8) :
    ((x &&& 1) == 0) = !bit x 1 ∧ ((x &&& 2) == 0) = !bit x 2 ∧ ((x &&& 4) == 0) = !bit x 4 ∧
    ((x &&& 8) == 0) = !bit x 8 ∧ ((x &&& 16) == 0) = !bit x 16 ∧ ((x &&& 32) == 0) = !bit x 32 ∧
    ((x &&& 16) != 0) = bit x 16 :=
  ⟨ntest_is_bit x 1, ntest_is_bit x 2, ntest_is_bit x 4, ntest_is_bit x 8, ntest_is_bit x 16, ntest_is_bit x 32,
    test_is_bit x 16⟩

/-- `ENVELOPE_RESET_TO_MAX[shape][0]` of the source is the model's table, for the 16 shapes -/
theorem reset_table (sh : Nat) (h : sh < 16) : AyDispatch.resetToMaxAt sh 0 = resetToMax sh false := by
  have : sh = 0 ∨ sh = 1 ∨ sh = 2 ∨ sh = 3 ∨ sh = 4 ∨ sh = 5 ∨ sh = 6 ∨ sh = 7 ∨ sh = 8 ∨ sh = 9 ∨ sh = 10 ∨
      sh = 11 ∨ sh = 12 ∨ sh = 13 ∨ sh = 14 ∨ sh = 15 := by omega
  rcases this with h | h | h | h | h | h | h | h | h | h | h | h | h | h | h | h <;> subst h <;> rfl

/-! ### the setters -/

/-- `AY_REGISTER_COUNT` is 14: R0–R13 reach the generator -/
theorem register_count_extracted : AyDispatch.AY_REGISTER_COUNT = 14 := rfl

/-- **`set_tone`**: 12 bits, 0 acts as 1, on the channel given by `index` only -/
theorem set_tone_is_model (g : AyDispatch.Gen) (m : Ay) (p : BitVec 16) :
    absGen (AyDispatch.setTone g 0 p) m = { absGen g m with ch0 := (absGen g m).ch0.setTone p.toNat } ∧
    absGen (AyDispatch.setTone g 1 p) m = { absGen g m with ch1 := (absGen g m).ch1.setTone p.toNat } ∧
    absGen (AyDispatch.setTone g 2 p) m = { absGen g m with ch2 := (absGen g m).ch2.setTone p.toNat } := by
  have hp : (p &&& 4095).toNat = p.toNat % 4096 := by rw [BitVec.toNat_and]; exact (and_masks _).2.2
  refine ⟨?_, ?_, ?_⟩ <;>
    (simp only [absGen, absChan, AyDispatch.setTone, AyDispatch.setAt, Chan.setTone, reduceIte, Nat.reduceEqDiff,
      zero_as_one, hp]; try rfl)

/-- **`set_noise`**: 5 bits, 0 acts as 1 -/
theorem set_noise_is_model (g : AyDispatch.Gen) (m : Ay) (p : BitVec 16) :
    absGen (AyDispatch.setNoise g p) m = { absGen g m with noise := (absGen g m).noise.setPeriod p.toNat } := by
  have hp : (p &&& 31).toNat = p.toNat % 32 := by rw [BitVec.toNat_and]; exact (and_masks _).2.1
  simp only [absGen, AyDispatch.setNoise, Noise.setPeriod, zero_as_one, hp]
  try rfl

/-- **`set_mixer`**: the three flags of the channel given by `index` (`tone_off_bit` / `noise_off_bit` are the
negated enables as 0 / 1) -/
theorem set_mixer_is_model (g : AyDispatch.Gen) (m : Ay) (te ne ee : Bool) :
    absGen (AyDispatch.setMixer g 0 te ne ee) m = { absGen g m with ch0 := (absGen g m).ch0.setMixer te ne ee } ∧
    absGen (AyDispatch.setMixer g 1 te ne ee) m = { absGen g m with ch1 := (absGen g m).ch1.setMixer te ne ee } ∧
    absGen (AyDispatch.setMixer g 2 te ne ee) m = { absGen g m with ch2 := (absGen g m).ch2.setMixer te ne ee } := by
  refine ⟨?_, ?_, ?_⟩ <;> cases te <;> cases ne <;>
    simp [absGen, absChan, AyDispatch.setMixer, AyDispatch.setAt, Chan.setMixer]

/-- **`set_volume`**: 4 bits -/
theorem set_volume_is_model (g : AyDispatch.Gen) (m : Ay) (v : Nat) :
    absGen (AyDispatch.setVolume g 0 v) m = { absGen g m with ch0 := (absGen g m).ch0.setVolume v } ∧
    absGen (AyDispatch.setVolume g 1 v) m = { absGen g m with ch1 := (absGen g m).ch1.setVolume v } ∧
    absGen (AyDispatch.setVolume g 2 v) m = { absGen g m with ch2 := (absGen g m).ch2.setVolume v } := by
  refine ⟨?_, ?_, ?_⟩ <;>
    simp [absGen, absChan, AyDispatch.setVolume, AyDispatch.setAt, Chan.setVolume, (and_masks v).1]

/-- **`set_envelope`**: all 16 bits, 0 acts as 1 -/
theorem set_envelope_is_model (g : AyDispatch.Gen) (m : Ay) (p : BitVec 16) :
    absGen (AyDispatch.setEnvelope g p) m = { absGen g m with env := (absGen g m).env.setPeriod p.toNat } := by
  simp only [absGen, AyDispatch.setEnvelope, Env.setPeriod, zero_as_one]
  try rfl

/-- **`set_envelope_shape`**: 4 bits; counter and segment restart, the level is reset by `reset_segment`
from `ENVELOPE_RESET_TO_MAX[shape][0]` (31 or 0) -/
theorem set_envelope_shape_is_model (g : AyDispatch.Gen) (m : Ay) (sh : Nat) :
    absGen (AyDispatch.setEnvelopeShape g sh) m = { absGen g m with env := (absGen g m).env.setShape sh } := by
  have h16 : sh % 16 < 16 := Nat.mod_lt _ (by omega)
  have ht := reset_table (sh % 16) h16
  unfold AyDispatch.setEnvelopeShape AyDispatch.resetSegment
  simp only [(and_masks sh).1, ht]
  cases hr : resetToMax (sh % 16) false <;>
    simp [absGen, Env.setShape, Env.resetSegment, hr]

/-! ### the dispatch -/

/-- a register number is one of 0…13 or at least 14 -/
theorem address_cases (a : BitVec 8) :
    a = 0 ∨ a = 1 ∨ a = 2 ∨ a = 3 ∨ a = 4 ∨ a = 5 ∨ a = 6 ∨ a = 7 ∨ a = 8 ∨ a = 9 ∨ a = 10 ∨ a = 11 ∨
      a = 12 ∨ a = 13 ∨ a.toNat ≥ 14 := by
  revert a; decide

/-- **The translated `write_register` = the model's `Ay.writeRegister`, for every generator state, every
register number 0…255 and every value** — and it never reaches `unreachable!()`. Numbers ≥ 14 change
nothing; otherwise the byte is stored in the generator's register copy and, from that copy: R0/R1, R2/R3,
R4/R5 → tone period of channel A, B, C = fine + 256·(coarse mod 16); R6 → noise period mod 32; R7 → the tone
and noise enables of all three channels (bits 0-2 and 3-5, active low) with the envelope flags (bit 4 of R8,
R9, R10); R8, R9, R10 → enables and envelope flag of that channel and its volume mod 16; R11/R12 → envelope
period, 16 bits; R13 → envelope shape mod 16 with restart. -/
theorem write_register_is_model (g : AyDispatch.Gen) (m : Ay) (a v : BitVec 8) :
    ∃ g', AyDispatch.writeRegister g a v = some g' ∧ absGen g' m = (absGen g m).writeRegister a v := by
  rcases address_cases a with h | h | h | h | h | h | h | h | h | h | h | h | h | h | h
  all_goals try (
       subst h
       refine ⟨_, rfl, ?_⟩
       simp only [(set_tone_is_model _ m _).1, (set_tone_is_model _ m _).2.1, (set_tone_is_model _ m _).2.2,
         set_noise_is_model, (set_mixer_is_model _ m _ _ _).1, (set_mixer_is_model _ m _ _ _).2.1,
         (set_mixer_is_model _ m _ _ _).2.2, (set_volume_is_model _ m _).1, (set_volume_is_model _ m _).2.1,
         (set_volume_is_model _ m _).2.2, set_envelope_is_model, set_envelope_shape_is_model,
         tone_word, noise_word, env_word, nibble_word, (mix_bits _).1, (mix_bits _).2.1, (mix_bits _).2.2.1,
         (mix_bits _).2.2.2.1, (mix_bits _).2.2.2.2.1, (mix_bits _).2.2.2.2.2.1, (mix_bits _).2.2.2.2.2.2]
       rfl)
  all_goals (
    refine ⟨g, ?_, ?_⟩
    · simp [AyDispatch.writeRegister, AyDispatch.AY_REGISTER_COUNT, h]
    · simp [Ay.writeRegister, Ay.writeReg, h])

/-! ### the chip behind the ports -/

/-- **`select_reg`**: the register number is taken modulo 16 (`& 0x0F`) -/
theorem select_reg_is_model (c : AyDispatch.Chip) (m : Ay) (v : BitVec 8) :
    absChip (c.selectReg v) m = (absChip c m).selectReg v := rfl

/-- **`write`**: the byte is stored in the port-visible file at the selected register and **every write is
forwarded** to the generator's `write_register` with the selected number (never a panic) -/
theorem chip_write_is_model (c : AyDispatch.Chip) (m : Ay) (v : BitVec 8) :
    ∃ c', c.write v = some c' ∧ absChip c' m = (absChip c m).write v := by
  obtain ⟨g', hg, he⟩ := write_register_is_model c.ay m (BitVec.ofNat 8 c.current_reg) v
  refine ⟨{ c with regs := AyDispatch.set8 c.regs c.current_reg v, ay := g' }, ?_, ?_⟩
  · simp [AyDispatch.Chip.write, hg]
  · simp only [absChip, Chip.write, he]
    rfl

/-- **`read`**: the port-visible file at the selected register -/
theorem chip_read_is_model (c : AyDispatch.Chip) (m : Ay) : c.read = (absChip c m).read := rfl

/-- the controller's three AY port functions call `select_reg`, `write`, `read` with the port value -/
theorem controller_forwards (c : AyDispatch.Chip) (v : BitVec 8) :
    AyDispatch.ctlSelectAyReg c v = c.selectReg v ∧ AyDispatch.ctlWriteAyPort c v = c.write v ∧
    AyDispatch.ctlReadAyPort c = c.read := ⟨rfl, rfl, rfl⟩

/-- one port operation on the translated chip (`none` = a panic) -/
def srcApply (c : AyDispatch.Chip) : Spec.PortOp → Option AyDispatch.Chip
  | .select v => some (AyDispatch.ctlSelectAyReg c v)
  | .write v => AyDispatch.ctlWriteAyPort c v

/-- a history of port operations on the translated chip -/
def srcRun : AyDispatch.Chip → List Spec.PortOp → Option AyDispatch.Chip
  | c, [] => some c
  | c, op :: ops => match srcApply c op with
    | none => none
    | some c' => srcRun c' ops

/-- **Every port history**: the translated chip never panics and stays the model's chip, operation by
operation, from any state -/
theorem src_run_is_model (c : AyDispatch.Chip) (m : Ay) (ops : List Spec.PortOp) :
    ∃ c', srcRun c ops = some c' ∧ absChip c' m = Chip.run (absChip c m) ops := by
  induction ops generalizing c with
  | nil => exact ⟨c, rfl, rfl⟩
  | cons op ops ih =>
    cases op with
    | select v =>
      obtain ⟨c', h1, h2⟩ := ih (c.selectReg v)
      exact ⟨c', h1, h2⟩
    | write v =>
      obtain ⟨c1, hw, he⟩ := chip_write_is_model c m v
      obtain ⟨c', h1, h2⟩ := ih c1
      refine ⟨c', ?_, ?_⟩
      · show (match AyDispatch.Chip.write c v with | none => none | some c' => srcRun c' ops) = some c'
        rw [hw]; exact h1
      · rw [h2, he]; rfl

/-- the power-on chip of the source: register 0 selected, both register files 0, generator fields as the
model's power-on state has them -/
def srcInit : AyDispatch.Chip :=
  { current_reg := 0, regs := fun _ => 0,
    ay := { channels := fun _ => ⟨1, 0, 0, false, 0⟩, noise_period := 0, envelope_counter := 0, envelope_period := 1,
            envelope_shape := 0, envelope_segment := 0, envelope := 0, registers := fun _ => 0 } }

/-- `srcInit` stands for the model's power-on chip -/
theorem src_init_is_model : absChip srcInit Ay.init = ({} : Chip) := rfl

/-- **The C18 port clause, about the translated source.** After any history of register selects and data
writes through the controller's port functions: no panic; a read of the data port returns the value last
written to the selected register (0 if never written), which the property's read-back relation accepts; the
selected register is the last selected number modulo 16; and the generator's own register copy agrees with
the port-visible file on R0–R13 — every write has reached the generator. -/
theorem source_port_clause (ops : List Spec.PortOp) :
    ∃ c, srcRun srcInit ops = some c ∧
      AyDispatch.ctlReadAyPort c = (Spec.RegFile.run {} ops).last (Spec.RegFile.run {} ops).selected ∧
      Spec.readAccepts (Spec.RegFile.run {} ops) (AyDispatch.ctlReadAyPort c) = true ∧
      c.current_reg = (Spec.RegFile.run {} ops).selected ∧
      (∀ r, r < 14 → c.ay.registers r = c.regs r) := by
  obtain ⟨c, hc, he⟩ := src_run_is_model srcInit Ay.init ops
  rw [src_init_is_model] at he
  have hrd : AyDispatch.ctlReadAyPort c = (Chip.run {} ops).read := by
    rw [← he]; rfl
  refine ⟨c, hc, ?_, ?_, ?_, ?_⟩
  · rw [hrd]; exact (C18.readback ops).1
  · rw [hrd]; exact (C18.readback ops).2
  · have := (chip_refines ops).1
    rw [← he] at this; exact this
  · intro r hr
    have := C18.chip_feeds_generator ops r hr
    rw [← he] at this; exact this

/-- **Register numbers wrap modulo 16, about the translated source**: selecting `v` or any `w ≡ v (mod 16)`
leaves the translated chip in the same state -/
theorem source_select_wraps (c : AyDispatch.Chip) (v w : BitVec 8) (h : v.toNat % 16 = w.toNat % 16) :
    c.selectReg v = c.selectReg w := by
  have := (C18.reg_wrap_mod16 (absChip c Ay.init) v w h).1
  show ({ c with current_reg := (v &&& 15).toNat } : AyDispatch.Chip) = { c with current_reg := (w &&& 15).toNat }
  have e : (v &&& 15).toNat = (w &&& 15).toNat := this
  rw [e]

/-! Non-vacuity: concrete writes through the translated dispatch. -/

example : ((AyDispatch.writeRegister srcInit.ay 1 0xFF).bind (fun g => AyDispatch.writeRegister g 0 0x34)).map
    (fun g => (g.channels 0).tone_period) = some 0xF34 := by decide

example : (AyDispatch.writeRegister srcInit.ay 13 0x0B).map (fun g => (g.envelope_shape, g.envelope)) = some (11, 31) := by
  decide

example : (AyDispatch.writeRegister srcInit.ay 14 0xFF).map (fun g => g.registers 14) = some 0 := by decide

end ZxVerif.C18Y
