/-
C19 — Audio arrives at exactly the configured rate and tracks the speaker bit.

Only property theorems live here (helper lemmas: ZxVerif/Lemmas/Mixer.lean).
Model  : ZxVerif/Model/Mixer.lean  (transcription of zx/sound/mixer.rs, beeper.rs, the sound part of
         wait_internal/new_frame/write_io in zx/controller.rs, next_audio_sample)
Spec   : ZxVerif/Spec/Mixer.lean
The theorems hold for every sample-index function `pos` with the properties `PosOk` (bounded by spf,
equal to spf from the frame length on, monotone, 0 at 0). The exact rational index `posQ` has them
(`frame_pos_rational`); for the f64 formula of `frame_pos`/`sample_count_for_frame_fraction` they are
observed on every call by the correspondence check, not proved (DESIGN §10).
Quantifiers: all wait schedules (any list of waits of any length, incl. waits longer than a frame),
all port writes, all sample rates (through spf), both machines (through L), all host drain
behaviours where stated.
-/
import ZxVerif.Lemmas.Mixer
namespace ZxVerif.C19
open ZxVerif.Mixer

/-- The exact rational reading of the frame position, `⌊spf·t/L⌋` (spf from the frame length on),
satisfies everything the theorems below assume of the sample-index function, and it is the index of
the sample whose slot contains frame time `t/L`: `k/spf ≤ t/L < (k+1)/spf`. -/
theorem frame_pos_rational (spf L : Nat) (hL : 0 < L) :
    PosOk spf L (posQ spf L) ∧
    ∀ t, t < L → posQ spf L t * L ≤ spf * t ∧ spf * t < (posQ spf L t + 1) * L :=
  ⟨posQ_ok spf L hL, fun t ht => posQ_bracket spf L t hL ht⟩

/-- **Exactly spf samples per frame (`spf_per_frame`).** For every schedule of waits and port
writes, every sample rate and frame length: if the host empties the queue whenever a frame boundary
has just been passed, every batch it receives has exactly `spf = ⌊rate/50⌋` samples. -/
theorem spf_per_frame (spf L : Nat) (pos : Nat → Nat) (hp : PosOk spf L pos) (s : Machine)
    (hs : Synced spf L s) (evs : List Ev) (hev : ∀ ev ∈ evs, ev.isPop = false) :
    ∀ b ∈ (runDrain pos s evs).2, b.length = spf := by
  have : ∀ (evs : List Ev) (acc : Machine × List (List Level)), (∀ ev ∈ evs, ev.isPop = false) →
      Synced spf L acc.1 → (∀ b ∈ acc.2, b.length = spf) →
      ∀ b ∈ (evs.foldl (drainStep pos) acc).2, b.length = spf := by
    intro evs
    induction evs with
    | nil => intro acc _ _ hb; exact hb
    | cons ev evs ih =>
      intro acc hev hs hb
      have h := drainStep_synced hp acc ev (hev ev List.mem_cons_self) hs hb
      exact ih _ (fun e he => hev e (List.mem_cons_of_mem _ he)) h.1 h.2
  exact this evs (s, []) hev hs (by simp)

/-- a freshly constructed machine (empty queue, cursor 0) is in the synced regime -/
theorem fresh_synced (rate L : Nat) (useBeeper : Bool) :
    Synced (spfOf rate) L { mixer := { spf := spfOf rate, useBeeper := useBeeper }, L := L } :=
  ⟨rfl, rfl, rfl, Nat.zero_le _⟩

/-- **Queue bound (`queue_bound`).** For every schedule of waits and port writes and *every* host
drain behaviour (any number of samples popped at any moment, including never): the queue always
stays strictly below two frames' worth of samples. -/
theorem queue_bound (spf L : Nat) (pos : Nat → Nat) (hp : PosOk spf L pos) (s : Machine)
    (hspf : s.mixer.spf = spf) (h0 : s.mixer.buf.length < 2 * spf) (evs : List Ev) :
    (runP pos s evs).mixer.buf.length < 2 * spf := by
  have : ∀ (evs : List Ev) (s : Machine), s.mixer.spf = spf → s.mixer.buf.length < 2 * spf →
      (runP pos s evs).mixer.spf = spf ∧ (runP pos s evs).mixer.buf.length < 2 * spf := by
    intro evs
    induction evs with
    | nil => intro s h1 h2; exact ⟨h1, h2⟩
    | cons ev evs ih =>
      intro s h1 h2
      have h := stepP_bound hp s ev h1 h2
      exact ih _ h.1 h.2
  exact (this evs s hspf h0).2

/-- After any wait that stays inside the frame the sample cursor is the index of the current frame
clock (`lastPos = pos fc`): the state in which the ULA write changes the level, because `write_io`
performs `wait_internal(1)` first (and if that very wait passes the boundary, `fc = 0 = lastPos`). -/
theorem cursor_tracks_clock (spf L : Nat) (pos : Nat → Nat) (hp : PosOk spf L pos) (s : Machine)
    (hs : Synced spf L s) (hle : s.mixer.lastPos ≤ pos s.fc) (clk : Nat) (h : s.fc + clk < L) :
    (waitP pos s clk).mixer.lastPos = pos (waitP pos s clk).fc ∧ Synced spf L (waitP pos s clk) := by
  have h1 := waitsP_noncross hp [clk] s hs hle (by simpa using h)
  exact ⟨h1.2.2.2.2.1 (by simp), h1.1⟩

/-- **The edge lands at the sample containing the write (`edge_within_one_sample`).** In the
always-drain regime, let the level be changed by a write to port 0xFE at frame clock `t = s.fc`
(cursor at `pos t`), followed by any waits up to and including the one that ends the frame, with no
further write. Then the batch of this frame is: the `pos t` samples generated before the write,
unchanged, followed by the new level for *all* remaining samples `pos t … spf-1`. With the rational
index, `pos t = ⌊spf·t/L⌋` is the sample whose slot `[k/spf, (k+1)/spf)` contains the time of the
write (`frame_pos_rational`), so the edge is within one sample of the write. -/
theorem edge_within_one_sample (spf L : Nat) (pos : Nat → Nat) (hp : PosOk spf L pos) (s : Machine)
    (hs : Synced spf L s) (hrest : s.mixer.lastPos = pos s.fc) (hub : s.mixer.useBeeper = true)
    (d : BitVec 8) (ws : List Nat) (clk : Nat)
    (hin : s.fc + ws.sum < L) (hcross : L ≤ s.fc + ws.sum + clk) :
    let level : Level := { ear := d.getLsbD 4, mic := d.getLsbD 3 }
    let s' := waitP pos (waitsP pos (s.out d) ws) clk
    s'.frames = s.frames + 1 ∧
    s.mixer.buf.length = pos s.fc ∧
    s'.mixer.buf = s.mixer.buf ++ List.replicate (spf - pos s.fc) level := by
  intro level s'
  have hs1 : Synced spf L (s.out d) := ⟨hs.hspf, hs.hL, hs.len, hs.le⟩
  have hgen : (s.out d).mixer.gen = level := by
    show (if s.mixer.useBeeper then _ else _) = _
    rw [hub]; rfl
  have h1 := waitsP_noncross hp ws (s.out d) hs1 (Nat.le_of_eq hrest) hin
  obtain ⟨i1, i2, i3, _, _, i6, i7, i8⟩ := h1
  have h2 := waitP_cross hp i1 clk (by rw [i2]; exact hcross)
  refine ⟨?_, ?_, ?_⟩
  · show (waitP pos _ clk).frames = _
    rw [h2.1, i3]; rfl
  · rw [hs.len, hrest]
  · show (waitP pos _ clk).mixer.buf = _
    rw [h2.2.2.1, i6, i8, hgen, List.append_assoc, List.replicate_append_replicate]
    show s.mixer.buf ++ _ = _
    congr 2
    have hl : (s.out d).mixer.lastPos = pos s.fc := hrest
    rw [hl] at i7 ⊢
    have := i1.le
    omega

/-- **Bounded by the volume (`bounded_by_volume`).** Whatever the history, every queued beeper
sample takes one of the four values `0, 0.1, 0.5, 0.6` times `volume/200` (here in units of 1/2000),
hence at most `0.6·volume/200`. -/
theorem bounded_by_volume (vol : Nat) (l : Level) :
    l.value vol ≤ Spec.valueBound vol ∧
    (l.value vol = 0 ∨ l.value vol = vol ∨ l.value vol = 5 * vol ∨ l.value vol = 6 * vol) := by
  unfold Level.value Spec.valueBound
  cases l.ear <;> cases l.mic <;> simp <;> omega

/-! Non-vacuity: concrete schedules on which the statements say something. -/

/-- rate 400 (spf 8), frame of 100 clocks, rational index: three frames of uneven waits with a
speaker toggle in the middle of the second one; every batch has 8 samples -/
example : ((runDrain (posQ 8 100) { mixer := { spf := 8 }, L := 100 }
    [.wait 30, .wait 45, .wait 40, .wait 7, .out 0x10, .wait 60, .wait 50, .wait 90]).2.map List.length)
    = [8, 8, 8] := by decide

/-- the toggle at clock 22 of the second frame (sample slot ⌊8·22/100⌋ = 1) shows from sample 1 on -/
example : ((runDrain (posQ 8 100) { mixer := { spf := 8 }, L := 100 }
    [.wait 30, .wait 45, .wait 40, .wait 7, .out 0x10, .wait 60, .wait 50]).2.map (·.map Level.code))
    = [[0, 0, 0, 0, 0, 0, 0, 0], [0, 2, 2, 2, 2, 2, 2, 2]] := by decide

/-- a host that never drains: the queue stops at one frame's worth -/
example : (runP (posQ 8 100) { mixer := { spf := 8 }, L := 100 }
    [.wait 70, .wait 70, .wait 70, .wait 70, .wait 70]).mixer.buf.length = 8 := by decide

end ZxVerif.C19
