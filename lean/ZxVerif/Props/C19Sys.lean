/-
C19 (system level) — the C19 theorems (samples per frame, queue bound, position of a speaker edge)
for the schedule of `wait_internal` calls and speaker writes the *machine* really produces, for every
program.

`Props/C19.lean` quantifies over all event lists (waits, port writes, host pops) of the mixer/frame-clock
model `Mixer.Machine`. Here the event list is the machine's: `RawWaits.Trace z z' evs` — the CPU took the
machine from `z` to `z'` through bus operations that issued, in order, the raw `wait_internal(clk)` calls
(each of which runs `mixer.process(frame_pos)` and, at the frame end, `mixer.new_frame()`; zero-length
calls included) and the writes that reached the ULA output latch `evs` (Lemmas/RawWaits.lean; every run
of `Z80.emulate` is such a trace). The sound machine fed with these events stays *alongside* the
machine: same frame offset, same frame count, same speaker bits — so "frame" and "the write at frame
clock t" in the C19 statements are the machine's own frames and clocks. Then:
  * an always-draining host gets one batch per frame the machine completes, each of exactly
    `⌊rate/50⌋` samples (`sys_spf_per_frame`);
  * under every host drain behaviour the queue stays below two frames' worth (`sys_queue_bound`);
  * after a write to the ULA port that reaches the speaker at frame clock `t`, with no further ULA port
    cycle in that frame, the batch of the frame is the samples generated before, then the new level
    from sample `pos t` on (`sys_edge`).
Quantifiers: every program, run length, CPU state, both machines, every start state, all sample rates
(through spf), every sample-index function with `PosOk` (the rational one has it, `C19.frame_pos_rational`).
-/
import ZxVerif.Lemmas.SoundSched
import ZxVerif.Props.C19
set_option linter.unusedSimpArgs false
namespace ZxVerif.C19Sys
open ZxVerif.Mixer ZxVerif.Z80 ZxVerif.Machine ZxVerif.Spectrum ZxVerif.RawWaits ZxVerif.SoundSched

/-! ### One batch per frame, the queue bound -/

/-- **Exactly ⌊rate/50⌋ samples for every frame of every program (`sys_spf_per_frame`).** Let the CPU
run any program for any number of instructions from any machine state; feed a sound machine that is
alongside the machine (and synced: its queue holds the samples of the current frame) with the
`wait_internal` calls and speaker writes the machine makes, and let the host empty the queue whenever
a frame boundary has just been passed. Then every batch has exactly `spf = ⌊rate/50⌋` samples, there is
exactly one batch per frame the machine completed, and the sound machine ends alongside the machine. -/
theorem sys_spf_per_frame (rate : Nat) (pos : Nat → Nat) (n : Nat) (s : Cpu) (z : ZX)
    (hp : PosOk (spfOf rate) z.ctl.kind.specs.clocksFrame pos)
    (sm : Mixer.Machine) (hs : Synced (spfOf rate) z.ctl.kind.specs.clocksFrame sm) (ha : Alongside sm z) :
    ∃ evs, Trace z (Z80.run .hw n (s, z)).2 evs ∧
      (∀ b ∈ (runDrain pos sm (evs.map toMix)).2, b.length = Spec.perFrame rate) ∧
      (runDrain pos sm (evs.map toMix)).2.length + z.ctl.passedFrames =
        (Z80.run .hw n (s, z)).2.ctl.passedFrames ∧
      Alongside (runDrain pos sm (evs.map toMix)).1 (Z80.run .hw n (s, z)).2 := by
  obtain ⟨evs, ht⟩ := program_trace n s z
  have hal := (alongside_run ht pos sm ha (evs.map toMix) (machinePart_map evs)).2
  refine ⟨evs, ht, C19.spf_per_frame _ _ pos hp sm hs _ (no_pops evs), ?_, hal⟩
  have hc := batches_count pos (evs.map toMix) (sm, [])
  simp only [List.length_nil, Nat.zero_add] at hc
  rw [← ha.frames, ← hal.frames]
  exact hc

/-- from reset, on either machine, with a freshly built mixer of any sample rate: every program, run
for any number of instructions, gives the always-draining host exactly one batch of `⌊rate/50⌋` samples
per completed frame -/
theorem sys_spf_from_reset (rate : Nat) (useBeeper : Bool) (k : Kind) (ke mo : Bool) (pos : Nat → Nat)
    (hp : PosOk (spfOf rate) k.specs.clocksFrame pos) (n : Nat) (s : Cpu) :
    ∃ evs, Trace (ZX.new k ke mo) (Z80.run .hw n (s, ZX.new k ke mo)).2 evs ∧
      (∀ b ∈ (runDrain pos { mixer := { spf := spfOf rate, useBeeper := useBeeper }, L := k.specs.clocksFrame }
          (evs.map toMix)).2, b.length = rate / 50) ∧
      (runDrain pos { mixer := { spf := spfOf rate, useBeeper := useBeeper }, L := k.specs.clocksFrame }
          (evs.map toMix)).2.length = (Z80.run .hw n (s, ZX.new k ke mo)).2.ctl.passedFrames := by
  have hk : (ZX.new k ke mo).ctl.kind = k := by cases k <;> rfl
  have h0 : (ZX.new k ke mo).ctl.passedFrames = 0 := by cases k <;> rfl
  obtain ⟨evs, ht, hb, hc, _⟩ := sys_spf_per_frame rate pos n s (ZX.new k ke mo) (by rw [hk]; exact hp)
    { mixer := { spf := spfOf rate, useBeeper := useBeeper }, L := k.specs.clocksFrame }
    (by rw [hk]; exact C19.fresh_synced rate _ useBeeper) (alongside_reset rate useBeeper k ke mo)
  rw [h0, Nat.add_zero] at hc
  exact ⟨evs, ht, hb, hc⟩

/-- **Queue bound for every program and every host (`sys_queue_bound`).** Whatever program runs and
however the host pops samples in between (any interleaving `es` of pops with the machine's events,
including never popping), the queue stays strictly below two frames' worth of samples, and the sound
machine stays alongside the machine. -/
theorem sys_queue_bound (spf : Nat) (pos : Nat → Nat) (n : Nat) (s : Cpu) (z : ZX)
    (hp : PosOk spf z.ctl.kind.specs.clocksFrame pos)
    (sm : Mixer.Machine) (hspf : sm.mixer.spf = spf) (h0 : sm.mixer.buf.length < 2 * spf) (ha : Alongside sm z) :
    ∃ evs, Trace z (Z80.run .hw n (s, z)).2 evs ∧
      ∀ es, machinePart es = evs →
        Spec.queueOk spf (runP pos sm es).mixer.buf.length = true ∧
        Alongside (runP pos sm es) (Z80.run .hw n (s, z)).2 := by
  obtain ⟨evs, ht⟩ := program_trace n s z
  refine ⟨evs, ht, fun es hes => ⟨?_, (alongside_run ht pos sm ha es hes).1⟩⟩
  simp only [Spec.queueOk, decide_eq_true_eq]
  exact C19.queue_bound spf _ pos hp sm hspf h0 es

/-! ### The speaker edge -/

/-- **The sound machine when the write reaches the speaker.** A port write starts with the first
contention (`wait_internal(delay)` if the port address is contended, `wait_internal(1)`); if that stays
inside the frame, the sound machine is then at the frame clock of the device step with its sample
cursor at the index of that clock, its queue extended with the old level. -/
theorem at_write {spf L : Nat} {pos : Nat → Nat} (hp : PosOk spf L pos) (z : ZX) (p : BitVec 16) (v : BitVec 8)
    (sm0 : Mixer.Machine) (hs : Synced spf L sm0) (ha : Alongside sm0 z) (hL : L = z.ctl.kind.specs.clocksFrame)
    (hle : sm0.mixer.lastPos ≤ pos sm0.fc) (hin : z.ctl.frameClocks + (z.ctl.rawFirst p).sum < L) :
    let sm := waitsP pos sm0 (z.ctl.rawFirst p)
    Synced spf L sm ∧ sm.fc = (devCtl z p v).frameClocks ∧ sm.frames = (devCtl z p v).passedFrames ∧
    sm.mixer.lastPos = pos sm.fc ∧
    sm.mixer.buf = sm0.mixer.buf ++ List.replicate (pos sm.fc - sm0.mixer.lastPos) sm0.mixer.gen ∧
    sm.mixer.gen = sm0.mixer.gen := by
  intro sm
  have h := waitsP_noncross hp (z.ctl.rawFirst p) sm0 hs hle (by rw [ha.fc]; exact hin)
  obtain ⟨i1, i2, i3, _, i5, i6, _, i8⟩ := h
  have hne : z.ctl.rawFirst p ≠ [] := by
    unfold Ctl.rawFirst firstK memK; split <;> simp
  have hcl := (devCtl_clock z p v).2
  rw [waits_clock] at hcl
  have hnc : ∀ (ws : List Nat) (cl : Nat × Nat), cl.1 + ws.sum < z.ctl.kind.specs.clocksFrame →
      ticks z.ctl.kind cl ws = (cl.1 + ws.sum, cl.2) := by
    intro ws
    induction ws with
    | nil => intro cl _; simp [ticks]
    | cons w ws ih =>
      intro cl hlt
      simp only [List.sum_cons] at hlt
      have e : tick z.ctl.kind cl w = (cl.1 + w, cl.2) := by
        unfold tick; rw [if_neg (by omega)]
      show ticks z.ctl.kind (tick z.ctl.kind cl w) ws = _
      rw [e, ih _ (by simp only; omega)]
      simp only [List.sum_cons, Nat.add_assoc]
  rw [hnc _ _ (by rw [← hL]; exact hin)] at hcl
  unfold Ctl.clock at hcl
  simp only [Prod.mk.injEq] at hcl
  refine ⟨i1, by rw [i2, ha.fc, hcl.1], by rw [i3, ha.frames, hcl.2], i5 hne, ?_, i8⟩
  rw [i6, i5 hne]

/-- **The edge lands at the sample containing the write, on the machine (`sys_edge`).** A write to a
port that decodes to the ULA reaches the speaker latch after the first contention of its port cycle, at
frame clock `t` (the sound machine `sm` there: synced, cursor at `pos t` — `at_write`). Let the port
cycle finish and the CPU run any program from there, for any number of instructions, that completes the
frame and touches no ULA (even) port meanwhile. Then the first batch the always-draining host receives
— the batch of this frame — is the `pos t` samples generated before the write, unchanged, followed by
the written level (EAR = bit 4, MIC = bit 3) for all remaining samples `pos t … spf − 1`: with the
rational index the edge sits in the sample slot containing the write (`C19.frame_pos_rational`). -/
theorem sys_edge (spf : Nat) (pos : Nat → Nat) (z : ZX) (p : BitVec 16) (v : BitVec 8)
    (hg : C04Sys.Good z.ctl) (hdec : writeDecode z.cfg p = .ula)
    (hp : PosOk spf z.ctl.kind.specs.clocksFrame pos)
    (sm : Mixer.Machine) (hs : Synced spf z.ctl.kind.specs.clocksFrame sm)
    (hfc : sm.fc = (devCtl z p v).frameClocks) (hcur : sm.mixer.lastPos = pos sm.fc)
    (hub : sm.mixer.useBeeper = true)
    (n : Nat) (s : Cpu)
    (hq : ∀ d, (Z80.run .hw n (s, ZX.writeIo p v z)).2.tlog = d ++ (ZX.writeIo p v z).tlog → Quiet d)
    (hcross : (devCtl z p v).passedFrames < (Z80.run .hw n (s, ZX.writeIo p v z)).2.ctl.passedFrames) :
    Trace z (ZX.writeIo p v z) (writeEvents z p v) ∧
    writeEvents z p v =
      (z.ctl.rawFirst p).map .wait ++ [.out v] ++ ((devCtl z p v).rawTail p).map .wait ∧
    ∃ evs, Trace (ZX.writeIo p v z) (Z80.run .hw n (s, ZX.writeIo p v z)).2 evs ∧
      sm.mixer.buf.length = pos sm.fc ∧
      (runDrain pos (sm.out v) ((((devCtl z p v).rawTail p).map Mixer.Ev.wait) ++ evs.map toMix)).2.head? =
        some (sm.mixer.buf ++ List.replicate (spf - pos sm.fc) { ear := v.getLsbD 4, mic := v.getLsbD 3 }) := by
  obtain ⟨evs, ht⟩ := program_trace n s (ZX.writeIo p v z)
  have f := ht.follows
  obtain ⟨d, hl, hqw, _⟩ := f.log
  have hw := hqw (hq d hl)
  refine ⟨.writeIo p v z, by simp [writeEvents, hdec], evs, ht, by rw [hs.len, hcur], ?_⟩
  rw [map_of_waits evs hw, ← List.map_append]
  obtain ⟨gd, _⟩ := devCtl_tail z p v hg
  have hk := (devCtl_clock z p v).1
  -- the clock after the rest of the port cycle and the program
  have hclock : (Z80.run .hw n (s, ZX.writeIo p v z)).2.ctl.clock =
      ticks z.ctl.kind (devCtl z p v).clock ((devCtl z p v).rawTail p ++ waitsOf evs) := by
    have h1 : (ZX.writeIo p v z).ctl.clock = ticks z.ctl.kind (devCtl z p v).clock ((devCtl z p v).rawTail p) := by
      rw [writeIo_ctl', waits_clock, hk]
    have h2 : (ZX.writeIo p v z).ctl.kind = z.ctl.kind := by rw [writeIo_ctl', waits_kind, hk]
    rw [f.clock, h1, h2, ← ticks_append]
  have hsum := ticks_cross z.ctl.kind ((devCtl z p v).rawTail p ++ waitsOf evs) (devCtl z p v).clock
    (by rw [← hclock]; exact hcross)
  have hs1 : Synced spf z.ctl.kind.specs.clocksFrame (sm.out v) := ⟨hs.hspf, hs.hL, hs.len, hs.le⟩
  have hgen : (sm.out v).mixer.gen = { ear := v.getLsbD 4, mic := v.getLsbD 3 } := by
    show (if sm.mixer.useBeeper then _ else _) = _
    rw [hub]; rfl
  have hin : (sm.out v).fc < z.ctl.kind.specs.clocksFrame := by
    show sm.fc < _
    rw [hfc, ← hk]; exact gd.inFrame
  have := first_batch hp _ (sm.out v) hs1 hin (by show _ ≤ sm.fc + _; rw [hfc]; exact hsum)
  rw [this, hgen]
  show some (sm.mixer.buf ++ List.replicate (spf - sm.mixer.lastPos) _) = _
  rw [hcur]

/-! ### Non-vacuity -/

/-- a 48K machine 60 T-states before the end of the frame, with `OUT (0xFE),A` (0xD3 0xFE) at 0x8000
followed by NOPs, A = 0x10 (EAR on) -/
def exampleZX : ZX :=
  { ZX.new .k48 false false with
    ctl := { Ctl.new .k48 with
      frameClocks := 69828
      mem := { Mem.new .k48 with ram := fun p o => if p = 1 ∧ o = 0 then 0xD3 else if p = 1 ∧ o = 1 then 0xFE else 0 } } }

def exampleCpu : Cpu := { pc := 0x8000, a := 0x10 }

/-- rate 44100 (spf 882), the rational sample index, a sound machine alongside the example state that
has generated the samples of the frame so far -/
def exampleSm : Mixer.Machine :=
  { mixer := { spf := 882, buf := List.replicate 881 {}, lastPos := 881 }, fc := 69828, L := 69888 }

example : Alongside exampleSm exampleZX ∧ Synced 882 69888 exampleSm ∧ C04Sys.Good exampleZX.ctl ∧
    PosOk (spfOf 44100) exampleZX.ctl.kind.specs.clocksFrame (posQ 882 69888) :=
  ⟨⟨rfl, rfl, rfl, rfl⟩, ⟨rfl, rfl, List.length_replicate .., by decide⟩, ⟨by decide, Or.inl ⟨rfl, rfl, rfl⟩⟩, posQ_ok 882 69888 (by decide)⟩

/-- the events of the `OUT (0xFE),A` on that machine: the two 4-T fetches and the 3-T operand read as
single waits, then the port cycle — 1 T, the speaker write, 3 T (no ULA delay in the border), 1 T -/
example : Trace exampleZX (ZX.writeIo 0x10FE 0x10 exampleZX) (writeEvents exampleZX 0x10FE 0x10) ∧
    writeEvents exampleZX 0x10FE 0x10 = [.wait 1, .out 0x10, .wait 2, .wait 1] :=
  ⟨.writeIo _ _ _, by decide⟩

/-- the same machine at the moment `OUT (0xFE),A` calls `write_io` (7 T-states into the instruction), the
CPU past the instruction, and the sound machine at the device step one T-state later: synced, cursor
at the sample index ⌊882 · 69836 / 69888⌋ = 881 of that clock -/
def writeZX : ZX := { exampleZX with ctl := { exampleZX.ctl with frameClocks := 69835 } }

def afterCpu : Cpu := { pc := 0x8002, a := 0x10 }

def writeSm : Mixer.Machine := { exampleSm with fc := 69836 }

/-- **the hypotheses of `sys_edge` hold together**: the port decodes to the ULA, the sound machine is
synced at the clock of the device step with its cursor there, and the 14 NOPs that follow complete the
frame without touching a port -/
example : C04Sys.Good writeZX.ctl ∧ writeDecode writeZX.cfg 0x10FE = .ula ∧
    PosOk 882 writeZX.ctl.kind.specs.clocksFrame (posQ 882 69888) ∧
    Synced 882 writeZX.ctl.kind.specs.clocksFrame writeSm ∧
    writeSm.fc = (devCtl writeZX 0x10FE 0x10).frameClocks ∧
    writeSm.mixer.lastPos = posQ 882 69888 writeSm.fc ∧ writeSm.mixer.useBeeper = true ∧
    (∀ d, (Z80.run .hw 14 (afterCpu, ZX.writeIo 0x10FE 0x10 writeZX)).2.tlog =
        d ++ (ZX.writeIo 0x10FE 0x10 writeZX).tlog → Quiet d) ∧
    (devCtl writeZX 0x10FE 0x10).passedFrames <
      (Z80.run .hw 14 (afterCpu, ZX.writeIo 0x10FE 0x10 writeZX)).2.ctl.passedFrames := by
  refine ⟨⟨by decide, Or.inl ⟨rfl, rfl, rfl⟩⟩, by decide, posQ_ok 882 69888 (by decide),
    ⟨rfl, rfl, List.length_replicate .., by decide⟩, by decide, by decide, rfl, ?_, by decide⟩
  intro d hd
  have hlen : (Z80.run .hw 14 (afterCpu, ZX.writeIo 0x10FE 0x10 writeZX)).2.tlog.length = 15 := by decide
  have hall : ((Z80.run .hw 14 (afterCpu, ZX.writeIo 0x10FE 0x10 writeZX)).2.tlog.take 14).all
      (fun e => !isIo e.2) = true := by decide
  have h1 : (ZX.writeIo 0x10FE 0x10 writeZX).tlog.length = 1 := by decide
  have hd14 : d.length = 14 := by
    have := congrArg List.length hd
    rw [hlen, List.length_append, h1] at this
    omega
  have : d = (Z80.run .hw 14 (afterCpu, ZX.writeIo 0x10FE 0x10 writeZX)).2.tlog.take 14 := by
    rw [hd, ← hd14, List.take_left]
  rw [this]
  exact quiet_of_no_io _ hall

/-- what `sys_edge` then says here: the rest of the port cycle (2 T, 1 T) and the 14 fetches of 4 T end
the frame; its batch is the 881 silent samples generated before the write and one sample — index 881,
the slot containing frame clock 69836 — with EAR on -/
example : ((runDrain (posQ 882 69888) (writeSm.out 0x10)
      ([Mixer.Ev.wait 2, .wait 1] ++ List.replicate 14 (.wait 4))).2.head?.map (·.map Level.code)) =
    some (List.replicate 881 0 ++ [2]) := by decide +kernel

/-- the instruction takes the machine across nothing yet (11 T-states), 13 more NOPs complete the
frame: one frame passed, the log after the port write is quiet (fetches only) -/
example : (Z80.run .hw 14 (exampleCpu, exampleZX)).2.ctl.passedFrames = 1 ∧
    (Z80.run .hw 14 (exampleCpu, exampleZX)).2.ctl.frameClocks = 3 := by decide

end ZxVerif.C19Sys
