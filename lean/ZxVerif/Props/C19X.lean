/-
C19 — theorems over the sound constants and expressions translated from the Rust sources on every
run (tools/extract.py, table MixerConsts → ZxVerif/Extracted/MixerConsts.lean): `FPS` (constants.rs),
`ZXMixer::samples_per_frame`, the guards and the sample count of `ZXMixer::process`, the padding rule
of `ZXMixer::new_frame`, the rational reading of `frame_pos` / `sample_count_for_frame_fraction`
(mixer.rs, controller.rs), the two sample factors and the level computation of `ZXBeeper::gen_sample`
(beeper.rs), the EAR/MIC bit tests of the ULA branch of `write_io` and the volume divisor of
`create_mixer` (controller.rs). f64 literals enter as exact rationals in units of 1/1000; no Float
occurs in any statement. What the source text says now is what Model/Mixer.lean runs and what the
property prescribes.
-/
import ZxVerif.Extracted.MixerConsts
import ZxVerif.Props.C19
namespace ZxVerif.C19X
open ZxVerif.Mixer

/-- **50 frames per second.** `FPS` of constants.rs is 50 and `samples_per_frame` as it stands in
the source is `sample_rate / FPS`: the model's `spfOf` and the property's ⌊rate/50⌋, for every rate -/
theorem samples_per_frame_extracted (rate : Nat) :
    Extracted.Mixer.FPS = 50 ∧
    Extracted.Mixer.samplesPerFrame rate = spfOf rate ∧
    Extracted.Mixer.samplesPerFrame rate = Spec.perFrame rate ∧
    Extracted.Mixer.samplesPerFrame rate = rate / 50 :=
  ⟨rfl, rfl, rfl, rfl⟩

/-- **Exactly ⌊rate/50⌋ samples per frame, with the source's constant.** `C19.spf_per_frame`
instantiated with `samples_per_frame` as extracted: for every sample rate, frame length, schedule of
waits and port writes, a host that drains at every frame boundary receives batches of exactly
`rate / 50` samples -/
theorem spf_per_frame_src (rate L : Nat) (pos : Nat → Nat)
    (hp : PosOk (Extracted.Mixer.samplesPerFrame rate) L pos) (s : Machine)
    (hs : Synced (Extracted.Mixer.samplesPerFrame rate) L s) (evs : List Ev)
    (hev : ∀ ev ∈ evs, ev.isPop = false) :
    ∀ b ∈ (runDrain pos s evs).2, b.length = rate / 50 :=
  C19.spf_per_frame (Extracted.Mixer.samplesPerFrame rate) L pos hp s hs evs hev

/-- the sample position as the source computes it (`frame_pos` clamped at 1, a full frame's worth
from fraction 1 on, else ⌊spf·t/L⌋ — read over the rationals) is the model's `posQ`, for every
samples-per-frame, frame length and frame clock -/
theorem pos_formula_extracted (spf L t : Nat) : Extracted.Mixer.posQ spf L t = posQ spf L t := by
  simp [Extracted.Mixer.posQ, posQ]

/-- **`ZXMixer::process` and `new_frame`, from the source's own guards.** The model's `process` is:
nothing when the source's "queue full" guard holds (queue ≥ one frame's worth), nothing when the
source's "position did not advance" guard holds, otherwise the source's count of new samples; the
model's `new_frame` pads exactly when and exactly as far as the source says (up to one frame's
worth) and restarts the cursor where the source does -/
theorem process_rule_extracted (m : Mixer) (cur : Nat) :
    m.process cur =
      (if Extracted.Mixer.processFull m.buf.length m.spf then m
       else if Extracted.Mixer.processStale cur m.lastPos then m
       else { m with buf := m.buf ++ List.replicate (Extracted.Mixer.processCount cur m.lastPos) m.gen,
                     lastPos := cur, lastSample := m.gen }) ∧
    m.newFrame =
      { m with buf := if Extracted.Mixer.newFramePads m.buf.length m.spf then
                        m.buf ++ List.replicate ((Extracted.Mixer.newFramePadRange m.buf.length m.spf).2
                                                  - (Extracted.Mixer.newFramePadRange m.buf.length m.spf).1) m.lastSample
                      else m.buf,
               lastPos := Extracted.Mixer.newFrameLastPos } := by
  constructor
  · simp only [Mixer.process, Extracted.Mixer.processFull, Extracted.Mixer.processStale,
      Extracted.Mixer.processCount, decide_eq_true_eq]
  · simp only [Mixer.newFrame, Extracted.Mixer.newFramePads, Extracted.Mixer.newFramePadRange,
      Extracted.Mixer.newFrameLastPos, decide_eq_true_eq]

/-- **Queue rule.** The source's guards bound the queue by two frames' worth: `process` adds
nothing once the queue holds one frame's worth and `new_frame` pads at most up to one frame's
worth — stated on the extracted expressions for every queue length and samples-per-frame -/
theorem queue_rule_extracted (len spf : Nat) :
    (Extracted.Mixer.processFull len spf = decide (spf ≤ len)) ∧
    (Extracted.Mixer.newFramePads len spf = decide (len < spf)) ∧
    Extracted.Mixer.newFramePadRange len spf = (len, spf) ∧
    (Extracted.Mixer.processFull len spf = false → len < 1 * spf) ∧
    Spec.queueOk spf len = decide (len < 2 * spf) := by
  refine ⟨?_, ?_, rfl, ?_, rfl⟩
  · simp [Extracted.Mixer.processFull]
  · simp [Extracted.Mixer.newFramePads]
  · simp [Extracted.Mixer.processFull]

/-- **Speaker bits.** The ULA branch of `write_io` as it stands in the source takes EAR from bit 4
and MIC from bit 3 of the byte written — the model's `Machine.out`, for every byte -/
theorem speaker_bits_extracted : ∀ d : BitVec 8,
    Extracted.Mixer.earOf d = d.getLsbD 4 ∧ Extracted.Mixer.micOf d = d.getLsbD 3 := by decide

/-- the model's `Machine.out` sets the beeper to the bits the source extracts -/
theorem out_is_source (s : Machine) (d : BitVec 8) :
    (s.out d).mixer.beeper = { ear := Extracted.Mixer.earOf d, mic := Extracted.Mixer.micOf d } := by
  rw [(speaker_bits_extracted d).1, (speaker_bits_extracted d).2]
  rfl

/-- **Beeper levels and volume scale.** `ZXBeeper::gen_sample` as it stands in the source gives
0, 0.1, 0.5, 0.6 for (EAR, MIC) = (0,0), (0,1), (1,0), (1,1), the same on both channels, built from
the factors 0.5 and 0.5/5; `create_mixer` divides the volume setting by 200. Hence a sample,
`level · volume / 200`, is the model's `Level.value` (units of 1/2000): the identity
`level·1000 × vol × 2000 = value × 1000 × divisor` holds for every volume and level -/
theorem beeper_levels_extracted (ear mic : Bool) (vol : Nat) :
    Extracted.Mixer.EAR_SAMPLE_FACTOR = 500 ∧ Extracted.Mixer.MIC_SAMPLE_FACTOR = 100 ∧
    Extracted.Mixer.volumeDivisor = 200 ∧
    (Extracted.Mixer.beeperLevel ear mic).1 = (Extracted.Mixer.beeperLevel ear mic).2 ∧
    (Extracted.Mixer.beeperLevel ear mic).1 =
      (if ear then Extracted.Mixer.EAR_SAMPLE_FACTOR else 0) + (if mic then Extracted.Mixer.MIC_SAMPLE_FACTOR else 0) ∧
    (Extracted.Mixer.beeperLevel ear mic).1 * vol * 2000
      = Level.value vol { ear := ear, mic := mic } * (1000 * Extracted.Mixer.volumeDivisor) := by
  refine ⟨rfl, rfl, rfl, ?_, ?_, ?_⟩
  · cases ear <;> cases mic <;> rfl
  · cases ear <;> cases mic <;> rfl
  · have hd : Extracted.Mixer.volumeDivisor = 200 := rfl
    rw [hd]
    cases ear <;> cases mic <;> simp [Extracted.Mixer.beeperLevel, Level.value] <;> omega

/-- **|sample| bound from the source's level table.** For every speaker state and volume setting a
beeper sample `level · volume / divisor` (source's levels, source's divisor) is at most the
property's bound `0.6 · volume / 200` (`Spec.valueBound`, units of 1/2000), and it is one of the
four values 0, 0.1, 0.5, 0.6 times `volume/200` -/
theorem sample_bound_extracted (ear mic : Bool) (vol : Nat) :
    (Extracted.Mixer.beeperLevel ear mic).1 * vol * 2000
      ≤ Spec.valueBound vol * (1000 * Extracted.Mixer.volumeDivisor) ∧
    (Extracted.Mixer.beeperLevel ear mic).1 ≤ 600 ∧
    ((Extracted.Mixer.beeperLevel ear mic).1 = 0 ∨ (Extracted.Mixer.beeperLevel ear mic).1 = 100 ∨
     (Extracted.Mixer.beeperLevel ear mic).1 = 500 ∨ (Extracted.Mixer.beeperLevel ear mic).1 = 600) := by
  have hd : Extracted.Mixer.volumeDivisor = 200 := rfl
  rw [hd]
  unfold Spec.valueBound
  cases ear <;> cases mic <;> simp [Extracted.Mixer.beeperLevel] <;> omega

end ZxVerif.C19X
