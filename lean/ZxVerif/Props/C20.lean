/-
C20 — VTX playback is frame-accurate and independent of play() chunking.

Only property theorems live here (helper lemmas: ZxVerif/Lemmas/Vtx.lean).
Model  : ZxVerif/Model/Vtx.lean  (transcription of vtx/src/player.rs and of the transposition
         loop of vtx/src/lib.rs, over an abstract sound-chip backend)
Spec   : ZxVerif/Spec/Vtx.lean   (index-based schedule, DESIGN Appendix E "C20 schedule")
Every theorem quantifies over all register logs (`data`, any length, any bytes), all sample
rates / player frequencies (through `spf`), every backend (any deterministic state machine) and
every list of buffer lengths; nothing is bounded.
-/
import ZxVerif.Lemmas.Vtx
namespace ZxVerif.C20
open ZxVerif.Vtx

variable {σ α : Type}

/-- **Chunking invariance.** For every backend, every player state and every list of buffer
lengths (length 0, 1 and odd lengths in stereo included), successive `play` calls leave the same
player/backend state and produce the same concatenated sample stream as a single run of
`Σ units(len)` loop iterations, where a mono buffer of length `n` offers `n` iterations and a
stereo buffer `⌊n/2⌋`. (With the recording backend the state *is* the call log.) -/
theorem play_chunking_invariant (B : Backend σ α) (p : Player σ) (lens : List Nat) :
    playMany B p lens = run B (lens.map (units p.stereo)).sum p :=
  playMany_eq_run B p lens

/-- Hence two partitions that offer the same number of samples per channel are indistinguishable:
same final state (same backend call sequence) and same sample stream. -/
theorem play_partitions_agree (B : Backend σ α) (p : Player σ) (lens₁ lens₂ : List Nat)
    (h : (lens₁.map (units p.stereo)).sum = (lens₂.map (units p.stereo)).sum) :
    playMany B p lens₁ = playMany B p lens₂ := by
  rw [play_chunking_invariant, play_chunking_invariant, h]

/-- In mono, any partition equals the one-shot `play` on a buffer of the total length
(the form of DESIGN Appendix A). -/
theorem play_chunking_invariant_mono (B : Backend σ α) (p : Player σ) (hm : p.stereo = false)
    (lens : List Nat) : playMany B p lens = play B p lens.sum := by
  rw [play_chunking_invariant, play, hm]
  have : units false = id := by funext n; simp [units]
  simp [this]

/-- In stereo, any partition equals the one-shot `play` on a buffer with as many sample pairs;
odd lengths simply leave their last slot unused. -/
theorem play_chunking_invariant_stereo (B : Backend σ α) (p : Player σ) (hs : p.stereo = true)
    (lens : List Nat) : playMany B p lens = play B p (2 * (lens.map (· / 2)).sum) := by
  rw [play_chunking_invariant, play, hs]
  have : units true = (· / 2) := by funext n; simp [units]
  simp [this, units]

/-- **Frame schedule.** A freshly constructed player (any log, any rate and player frequency
with `spf = ⌊rate/playerFrequency⌋ > 0`) that is asked for `n` samples per channel performs on
its backend exactly the calls of the spec schedule — frame `k`'s register writes immediately
before the `next_sample` of output sample `k·spf`, nothing after `frames·spf` samples — and
returns exactly the samples those calls produce. -/
theorem frame_schedule (B : Backend σ α) (data : List (BitVec 8)) (pf rate : Nat) (stereo : Bool)
    (ay0 : σ) (p0 : Player σ) (h : Player.new data pf rate stereo ay0 = some p0)
    (hspf : 0 < rate / pf) (n : Nat) :
    ((run B n p0).1.ay, (run B n p0).2) = applyCalls B ay0 (Spec.schedule data (rate / pf) 0 n) := by
  rw [new_eq_start h]
  exact (run_from_start B data (rate / pf) stereo ay0 hspf n).1

/-- The same for the recording backend: the recorded call log *is* the spec schedule, and the
`j`-th sample handed to the caller is the result of the `j`-th `next_sample` call. -/
theorem frame_schedule_recorded (data : List (BitVec 8)) (pf rate : Nat) (stereo : Bool)
    (p0 : Player RecState) (h : Player.new data pf rate stereo {} = some p0)
    (hspf : 0 < rate / pf) (n : Nat) :
    (run recorder n p0).1.ay.log = Spec.schedule data (rate / pf) 0 n ∧
    (run recorder n p0).2 = List.range (min n (Spec.totalSamples data (rate / pf))) := by
  have hs := frame_schedule recorder data pf rate stereo {} p0 h hspf n
  have hr := applyCalls_recorder {} (Spec.schedule data (rate / pf) 0 n)
  have e1 := congrArg Prod.fst hs
  have e2 := congrArg Prod.snd hs
  simp only at e1 e2
  refine ⟨by rw [e1, hr.1]; simp [RecState.log], ?_⟩
  have hlen : (run recorder n p0).2.length = min n (Spec.totalSamples data (rate / pf)) := by
    rw [new_eq_start h]
    exact (run_from_start recorder data (rate / pf) stereo {} hspf n).2.1
  have h3 := hr.2.2
  rw [← e2] at h3
  have hcount : (List.filter (fun x => decide (x = Call.sample))
      (Spec.schedule data (rate / pf) 0 n)).length = min n (Spec.totalSamples data (rate / pf)) := by
    rw [← hlen, h3]; simp
  rw [h3, hcount, List.range_eq_range']

/-- **Total.** The player delivers exactly `min n (frames·spf)` samples per channel when asked
for `n`; once `frames·spf` have been delivered every further `play` delivers nothing (returns 0),
whatever the buffer length. -/
theorem total_samples (B : Backend σ α) (data : List (BitVec 8)) (pf rate : Nat) (stereo : Bool)
    (ay0 : σ) (p0 : Player σ) (h : Player.new data pf rate stereo ay0 = some p0)
    (hspf : 0 < rate / pf) (n : Nat) :
    (run B n p0).2.length = min n (Spec.frames data * (rate / pf)) ∧
    (Spec.frames data * (rate / pf) ≤ n → ∀ m, (play B (run B n p0).1 m).2 = []) := by
  rw [new_eq_start h]
  have hrun := run_from_start B data (rate / pf) stereo ay0 hspf n
  refine ⟨hrun.2.1, ?_⟩
  intro hn m
  have hf := run_fields B n (Player.start data (rate / pf) stereo ay0)
  have hspf' : (run B n (Player.start data (rate / pf) stereo ay0)).1.spf = rate / pf := hf.2.1
  have hdata' : (run B n (Player.start data (rate / pf) stereo ay0)).1.frameData = data := hf.2.2
  have hpos : (run B n (Player.start data (rate / pf) stereo ay0)).1.pos
      = Spec.totalSamples data (rate / pf) := by
    rw [hrun.2.2.1]; unfold Spec.totalSamples; omega
  have h2 := run_schedule B (units (run B n (Player.start data (rate / pf) stereo ay0)).1.stereo m)
    (run B n (Player.start data (rate / pf) stereo ay0)).1
    (by rw [hspf']; exact hspf) (by rw [hspf']; exact hrun.2.2.2)
    (by rw [hspf', hdata', hpos]; exact Nat.le_refl _)
  have hl := h2.2.1
  rw [hspf', hdata', hpos] at hl
  unfold play
  apply List.eq_nil_of_length_eq_zero
  rw [hl]
  unfold Spec.delivered; omega

/-- **R13 = 0xFF is skipped, everything else is written.** Applying a frame whose 14 register
values are `regs` to the recording backend logs `write r regs[r]` for `r = 0..12` in order, then
`write 13 regs[13]` exactly when `regs[13] ≠ 0xFF`. -/
theorem r13_ff_skipped (r0 r1 r2 r3 r4 r5 r6 r7 r8 r9 r10 r11 r12 r13 : BitVec 8) :
    (writeRegs recorder {} [r0, r1, r2, r3, r4, r5, r6, r7, r8, r9, r10, r11, r12, r13]).log =
      [.write 0 r0, .write 1 r1, .write 2 r2, .write 3 r3, .write 4 r4, .write 5 r5, .write 6 r6,
       .write 7 r7, .write 8 r8, .write 9 r9, .write 10 r10, .write 11 r11, .write 12 r12]
      ++ (if r13 = 0xFF then [] else [.write 13 r13]) := by
  by_cases h : r13 = 255#8
  · simp [writeRegs, List.zipIdx, writeOne, recorder, RecState.log, h]
  · simp [writeRegs, List.zipIdx, writeOne, recorder, RecState.log, h]

/-- **Transposition.** For every frame count `n` and every register-major block `t` of `14·n`
bytes the loader's loop yields a list of the same length with
`frame-major[i·14+r] = register-major[r·n+i]` for all `i < n`, `r < 14`; it coincides with the
spec's frame-major listing, and it has a left inverse, so no byte is lost or duplicated. -/
theorem transpose_bijective (n : Nat) (t : List (BitVec 8)) (h : t.length = 14 * n) :
    (transpose t).length = 14 * n ∧
    (∀ i r, i < n → r < 14 → (transpose t).getD (i * 14 + r) 0 = t.getD (r * n + i) 0) ∧
    transpose t = Spec.transposed n t ∧
    untranspose (transpose t) = t :=
  ⟨by rw [transpose_length, h], fun i r hi hr => transpose_index n t h i r hi hr,
   transpose_eq_spec n t h, untranspose_transpose n t h⟩

/-! Non-vacuity: concrete logs on which the statements say something. -/

/-- two frames, spf = 3, the second frame has R13 = 0xFF: 6 samples, 14 + 13 writes -/
example :
    let data : List (BitVec 8) := (List.range 28).map fun i => if i = 27 then 0xFF else BitVec.ofNat 8 i
    ((Player.new data 50 150 false ({} : RecState)).map fun p =>
      ((playMany recorder p [1, 0, 4, 7]).1.ay.log.length, (playMany recorder p [1, 0, 4, 7]).2))
      = some (14 + 13 + 6, [0, 1, 2, 3, 4, 5]) := by decide

/-- stereo: buffers of length 1 and 3 offer 0 and 1 pairs -/
example :
    let data : List (BitVec 8) := List.replicate 14 0
    ((Player.new data 1 2 true ({} : RecState)).map fun p => (playMany recorder p [1, 3, 5]).2)
      = some [0, 1] := by decide

example : transpose ((List.range 28).map (BitVec.ofNat 8)) =
    ((List.range 28).map fun j => BitVec.ofNat 8 ((j % 14) * 2 + j / 14)) := by decide

end ZxVerif.C20
