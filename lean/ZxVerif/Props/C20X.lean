/-
C20 — theorems over the VTX loader and player *translated from the Rust sources on every run*
(tools/extract.py, table VtxLayout → ZxVerif/Extracted/VtxLayout.lean): the reads of the fixed header of
`Vtx::load` in order, its validity tests, the strings block, the LH5 chunking, the un-transposition loop
(range, `frames_count`, the index expression), `frames_count` / `frame_registers` (vtx/src/lib.rs),
`samples_per_frame` of `Player::new`, the R13 rule, iteration order and `write_register` arguments of
`update_ay`, the update test, the stores, the cursor arithmetic and the returned count of both sample
loops of `play` (vtx/src/player.rs).

What the source text says now is (a) the documented VTX layout and the property's arithmetic, stated
outright here, and (b) exactly what the hand-written model `Model/Vtx.lean` runs: the model's `transpose`,
`frameRegisters`, `writeRegs`, `step`, `run`, `play` are *equal* to interpreters put together from the
extracted expressions, for every byte string, every player state and every backend. So the theorems of
Props/C20.lean are theorems about the expressions as they stand in lib.rs / player.rs; an index
expression, a comparison, the 0xFF of the R13 rule, the write order or the frame-advance test changed
there breaks a theorem here.
-/
import ZxVerif.Extracted.VtxLayout
import ZxVerif.Props.C20
import ZxVerif.Model.Loaders.Vtx
namespace ZxVerif.C20X
open ZxVerif.Vtx

variable {σ α : Type}

/-! ### the file: header, strings, compressed block -/

/-- **The fixed header, source text = documented VTX layout.** `Vtx::load` reads, in this order and all
little-endian: the two magic bytes, the stereo byte, the loop frame (u16), the chip frequency (u32), the
player frequency (u8), the year (u16), the unpacked size (u32) — 16 bytes, the widths the C15 loader
model `Loaders.vtxLoad` reads with; the magic is `ay` (AY chip) or `ym` (YM chip) and nothing else. -/
theorem header_layout_is_documented :
    Extracted.Vtx.header =
      [(.magic, 2, true), (.stereo, 1, true), (.loopStart, 2, true), (.frequency, 4, true),
       (.playerFrequency, 1, true), (.year, 2, true), (.size, 4, true)] ∧
    (Extracted.Vtx.header.map (·.2.1)).sum = 16 ∧
    Extracted.Vtx.magics = [([0x61, 0x79], "AY"), ([0x79, 0x6D], "YM")] :=
  ⟨rfl, rfl, rfl⟩

/-- **Header tests.** The stereo byte is accepted exactly for 0…6 (the seven `Stereo` layouts), the
unpacked size is rejected exactly when it is not a multiple of 14 (`AY_REGISTER_COUNT`), the player
frequency exactly when it is 0 — for every byte and every size; these are the tests of the C15 loader
model. `R13_NO_CHANGE_VALUE` is 0xFF. -/
theorem header_tests_extracted (b : BitVec 8) (size : Nat) :
    Extracted.Vtx.AY_REGISTER_COUNT = regCount ∧ Extracted.Vtx.AY_REGISTER_COUNT = 14 ∧
    Extracted.Vtx.R13_NO_CHANGE_VALUE = 0xFF ∧
    Extracted.Vtx.stereoVariants.length = 7 ∧
    Extracted.Vtx.stereoAccepted b = !decide (6 < b.toNat) ∧
    Extracted.Vtx.sizeRejected size = decide (size % 14 ≠ 0) ∧
    Extracted.Vtx.playerFrequencyRejected b = decide (b.toNat = 0) := by
  refine ⟨rfl, rfl, rfl, rfl, ?_, ?_, ?_⟩
  · have h : Extracted.Vtx.stereoVariants.length = 7 := rfl
    simp only [Extracted.Vtx.stereoAccepted, h]
    by_cases h6 : 6 < b.toNat <;> simp [h6] <;> omega
  · simp only [Extracted.Vtx.sizeRejected, Extracted.Vtx.AY_REGISTER_COUNT]
    by_cases h : size % 14 = 0 <;> simp [h]
  · simp only [Extracted.Vtx.playerFrequencyRejected]
    by_cases h0 : b = 0#8
    · subst h0; rfl
    · have : b.toNat ≠ 0 := fun h => h0 (BitVec.eq_of_toNat_eq (by simpa using h))
      simp [h0, this]

/-- **Strings block.** Five strings, each closed by a NUL byte, in the order title, author, from,
tracker, comment; the scan reads 256 bytes at a time (the constant of the C15 loader model) and stops at
the fifth terminator. -/
theorem strings_block_extracted :
    Extracted.Vtx.EXPECTED_STRINGS_COUNT = 5 ∧ Extracted.Vtx.stringsRequired = 5 ∧
    Extracted.Vtx.stringsScanUntil = (5, 5) ∧ Extracted.Vtx.stringTerminator = 0 ∧
    Extracted.Vtx.stringOrder = ["title", "author", "from", "tracker", "comment"] ∧
    Extracted.Vtx.READ_STRING_BUFFER_SIZE = Loaders.READ_STRING_BUFFER_SIZE :=
  ⟨rfl, rfl, rfl, rfl, rfl, rfl⟩

/-- **LH5 decoding in 64 KiB chunks.** The chunk constant is 65536 (the C15 loader model's); a round
asks for `min 65536 (size − decoded)` bytes; while the loop goes on the request is non-empty and never
takes the buffer past the declared size — so the loop ends with exactly `size` bytes, for every size. -/
theorem decode_chunks_extracted (size decoded : Nat) :
    Extracted.Vtx.DECODE_CHUNK_SIZE = 65536 ∧ Extracted.Vtx.DECODE_CHUNK_SIZE = Loaders.VTX_DECODE_CHUNK ∧
    Extracted.Vtx.decodeChunk size decoded = min 65536 (size - decoded) ∧
    (Extracted.Vtx.decodeContinues decoded size = true →
      0 < Extracted.Vtx.decodeChunk size decoded ∧
      Extracted.Vtx.decodeResize decoded (Extracted.Vtx.decodeChunk size decoded) ≤ size ∧
      decoded < Extracted.Vtx.decodeResize decoded (Extracted.Vtx.decodeChunk size decoded)) ∧
    (Extracted.Vtx.decodeContinues decoded size = false → size ≤ decoded) := by
  have hc : Extracted.Vtx.DECODE_CHUNK_SIZE = 65536 := rfl
  refine ⟨rfl, rfl, ?_, ?_, ?_⟩
  · simp [Extracted.Vtx.decodeChunk, hc]
  · intro h
    simp only [Extracted.Vtx.decodeContinues, decide_eq_true_eq] at h
    simp only [Extracted.Vtx.decodeChunk, Extracted.Vtx.decodeResize, hc]
    omega
  · intro h
    simp only [Extracted.Vtx.decodeContinues, decide_eq_false_iff_not] at h
    omega

/-! ### un-transposition -/

/-- `Vtx::load`'s un-transposition loop put together from the extracted pieces: `idx` runs over the
extracted range, `frame_data[idx]` is the byte of the decoded data at the extracted index expression,
with the extracted `frames_count` -/
def srcTranspose (t : List (BitVec 8)) : List (BitVec 8) :=
  (List.range' (Extracted.Vtx.transposeRange t.length).1
      ((Extracted.Vtx.transposeRange t.length).2 - (Extracted.Vtx.transposeRange t.length).1)).map fun idx =>
    t.getD (Extracted.Vtx.transposeSrc (Extracted.Vtx.transposeFrames t.length) idx) 0

/-- **The index expression, for all frames and registers.** The expression of the loop body as it
stands in the source sends position `idx` to `(idx mod 14)·frames + idx div 14`; hence
**frame f, register r is byte r·frames + f** of the decoded data — for every frame count and every
`f`, every `r < 14`; `frames_count` is `len / 14` and `idx` runs over `0..len`. -/
theorem transpose_index_extracted (frames idx f r len : Nat) (hr : r < 14) :
    Extracted.Vtx.transposeSrc frames idx = (idx % 14) * frames + idx / 14 ∧
    Extracted.Vtx.transposeSrc frames (f * 14 + r) = r * frames + f ∧
    Extracted.Vtx.transposeFrames len = len / 14 ∧
    Extracted.Vtx.transposeRange len = (0, len) := by
  have h1 : (f * 14 + r) % 14 = r := by omega
  have h2 : (f * 14 + r) / 14 = f := by omega
  refine ⟨rfl, ?_, rfl, rfl⟩
  show ((f * 14 + r) % 14) * frames + (f * 14 + r) / 14 = r * frames + f
  rw [h1, h2]

/-- **The model's transposition is the source's.** For every byte string the loop assembled from the
extracted range, `frames_count` and index expression is the model's `transpose` -/
theorem transpose_is_source (t : List (BitVec 8)) : srcTranspose t = transpose t := by
  unfold srcTranspose transpose
  have hr : Extracted.Vtx.transposeRange t.length = (0, t.length) := rfl
  rw [hr]
  simp only [Nat.sub_zero, List.range_eq_range']
  rfl

/-- **Un-transposition as the property states it, about the source's loop.** For every frame count
`n` and every decoded block of `14·n` bytes the loop of the source yields `14·n` bytes with
`frame-major[f·14 + r] = decoded[r·n + f]` for all `f < n`, `r < 14`; it is the spec's frame-major
listing and has a left inverse (no byte lost or duplicated) — `C20.transpose_bijective` through
`transpose_is_source`. -/
theorem transpose_spec_src (n : Nat) (t : List (BitVec 8)) (h : t.length = 14 * n) :
    (srcTranspose t).length = 14 * n ∧
    (∀ f r, f < n → r < 14 → (srcTranspose t).getD (f * 14 + r) 0 = t.getD (r * n + f) 0) ∧
    srcTranspose t = Spec.transposed n t ∧
    untranspose (srcTranspose t) = t := by
  rw [transpose_is_source]
  exact C20.transpose_bijective n t h

/-! ### frames of the log -/

/-- **`frames_count` and `frame_registers`.** As they stand in the source: `len / 14` frames; frame
`index` starts at `index·14`, is missing exactly when `index·14 + 14 > len`, and is the slice
`[index·14, index·14 + 14)` — the model's `framesCount` / `frameRegisters` and the spec's `frames`,
for every log and index. -/
theorem frame_registers_extracted (data : List (BitVec 8)) (index : Nat) :
    Extracted.Vtx.framesCount data.length = framesCount data ∧
    Extracted.Vtx.framesCount data.length = Spec.frames data ∧
    Extracted.Vtx.frameOffset index = index * 14 ∧
    frameRegisters data index =
      (if Extracted.Vtx.frameMissing (Extracted.Vtx.frameOffset index) data.length then none
       else some ((data.drop (Extracted.Vtx.frameSlice (Extracted.Vtx.frameOffset index)).1).take
         ((Extracted.Vtx.frameSlice (Extracted.Vtx.frameOffset index)).2
           - (Extracted.Vtx.frameSlice (Extracted.Vtx.frameOffset index)).1))) := by
  refine ⟨rfl, rfl, rfl, ?_⟩
  simp only [frameRegisters, Extracted.Vtx.frameMissing, Extracted.Vtx.frameOffset,
    Extracted.Vtx.frameSlice, Extracted.Vtx.AY_REGISTER_COUNT, regCount, Nat.add_sub_cancel_left]
  by_cases h : index * 14 + 14 > data.length <;> simp [h]

/-! ### the player -/

/-- **Samples per frame.** `Player::new` as it stands in the source computes
`sample_rate / player_frequency` — ⌊rate/pf⌋, the property's value — and starts the cursor at frame 0,
sample 0: what the model's `Player.new` builds, for every rate and player frequency. -/
theorem samples_per_frame_extracted (data : List (BitVec 8)) (pf : BitVec 8) (rate : Nat)
    (stereo : Bool) (ay0 : σ) (p0 : Player σ) (h : Player.new data pf.toNat rate stereo ay0 = some p0) :
    Extracted.Vtx.samplesPerFrame rate pf = rate / pf.toNat ∧
    p0.spf = Extracted.Vtx.samplesPerFrame rate pf ∧
    (p0.frame, p0.frameSample) = Extracted.Vtx.initCursor := by
  rw [new_eq_start h]
  exact ⟨rfl, rfl, rfl⟩

/-- **R13 rule.** The test of `update_ay` as it stands in the source skips a register exactly when it
is register 13 and its value is 0xFF (`R13_NO_CHANGE_VALUE`); every other register is written with
its own number as the address and its value unchanged — for every index and value. -/
theorem skip_rule_extracted (idx : Nat) (v : BitVec 8) :
    Extracted.Vtx.skipWrite idx v = decide (idx = 13 ∧ v = 0xFF) ∧
    Extracted.Vtx.skipWrite idx v = decide (idx = 13 ∧ v = Extracted.Vtx.R13_NO_CHANGE_VALUE) ∧
    Extracted.Vtx.writeAddr idx v = BitVec.ofNat 8 idx ∧
    Extracted.Vtx.writeValue idx v = v := by
  have hr : Extracted.Vtx.R13_NO_CHANGE_VALUE = 0xFF := rfl
  rw [hr]
  refine ⟨?_, ?_, rfl, rfl⟩ <;>
  · simp only [Extracted.Vtx.skipWrite]
    by_cases h1 : idx = 13 <;> by_cases h2 : v = 255#8 <;> simp [h1, h2]

/-- the loop of `update_ay` put together from the extracted pieces: the pairs in the extracted order,
the extracted skip test, `write_register` with the extracted arguments -/
def srcWriteRegs (B : Backend σ α) (ay : σ) (regs : List (BitVec 8)) : σ :=
  (Extracted.Vtx.writeOrder regs).foldl (fun ay x =>
    if Extracted.Vtx.skipWrite x.2 x.1 then ay
    else B.write ay (Extracted.Vtx.writeAddr x.2 x.1) (Extracted.Vtx.writeValue x.2 x.1)) ay

/-- **Write order.** The source visits the registers of a frame in ascending order 0, 1, …, and the
loop assembled from the extracted pieces is the model's `writeRegs`, for every backend, backend state
and register list. -/
theorem write_order_extracted (B : Backend σ α) (ay : σ) (regs : List (BitVec 8)) :
    Extracted.Vtx.writeOrder regs = regs.zipIdx ∧ srcWriteRegs B ay regs = writeRegs B ay regs := by
  refine ⟨rfl, ?_⟩
  unfold srcWriteRegs writeRegs
  have : (fun (ay : σ) (x : BitVec 8 × Nat) =>
      if Extracted.Vtx.skipWrite x.2 x.1 then ay
      else B.write ay (Extracted.Vtx.writeAddr x.2 x.1) (Extracted.Vtx.writeValue x.2 x.1)) = writeOne B := by
    funext ay x
    simp only [writeOne, (skip_rule_extracted x.2 x.1).1, decide_eq_true_eq]
    rfl
  rw [this]
  rfl

/-- **R13 = 0xFF is skipped, by the source's loop.** `C20.r13_ff_skipped` through
`write_order_extracted`: the recording backend logs `write r regs[r]` for r = 0…12 in order, then
`write 13 regs[13]` exactly when `regs[13] ≠ 0xFF`. -/
theorem r13_ff_skipped_src (r0 r1 r2 r3 r4 r5 r6 r7 r8 r9 r10 r11 r12 r13 : BitVec 8) :
    (srcWriteRegs recorder {} [r0, r1, r2, r3, r4, r5, r6, r7, r8, r9, r10, r11, r12, r13]).log =
      [.write 0 r0, .write 1 r1, .write 2 r2, .write 3 r3, .write 4 r4, .write 5 r5, .write 6 r6,
       .write 7 r7, .write 8 r8, .write 9 r9, .write 10 r10, .write 11 r11, .write 12 r12]
      ++ (if r13 = 0xFF then [] else [.write 13 r13]) := by
  rw [(write_order_extracted recorder {} _).2]
  exact C20.r13_ff_skipped r0 r1 r2 r3 r4 r5 r6 r7 r8 r9 r10 r11 r12 r13

/-- `update_ay` from the extracted pieces (`frame_registers(self.frame)`, then the loop) -/
def srcUpdateAy (B : Backend σ α) (p : Player σ) : Option (Player σ) :=
  let off := Extracted.Vtx.frameOffset p.frame
  let regs := (p.frameData.drop (Extracted.Vtx.frameSlice off).1).take
    ((Extracted.Vtx.frameSlice off).2 - (Extracted.Vtx.frameSlice off).1)
  if Extracted.Vtx.frameMissing off p.frameData.length then none
  else some { p with ay := srcWriteRegs B p.ay regs }

/-- one iteration of a sample loop of `play` from the extracted pieces: the update test, then
`next_sample`, then the cursor arithmetic — of the stereo loop or of the mono loop -/
def srcStep (B : Backend σ α) (p : Player σ) : Option (Player σ × α) :=
  let need := if p.stereo then Extracted.Vtx.needsUpdateStereo p.frame p.frameSample p.spf
              else Extracted.Vtx.needsUpdateMono p.frame p.frameSample p.spf
  match (if need then srcUpdateAy B p else some p) with
  | none => none
  | some p1 =>
    let r := B.next p1.ay
    let c := if p.stereo then Extracted.Vtx.advanceStereo p1.frame p1.frameSample p1.spf
             else Extracted.Vtx.advanceMono p1.frame p1.frameSample p1.spf
    some ({ p1 with ay := r.1, frame := c.1, frameSample := c.2 }, r.2)

/-- `update_ay` assembled from the extracted pieces is the model's `updateAy`, in every player state -/
theorem updateAy_is_source (B : Backend σ α) (p : Player σ) : srcUpdateAy B p = updateAy B p := by
  unfold srcUpdateAy updateAy
  rw [(frame_registers_extracted p.frameData p.frame).2.2.2]
  dsimp only
  split <;> simp [(write_order_extracted B _ _).2]

/-- **The frame-advance test.** The cursor arithmetic of both loops as it stands in the source:
`frame_sample + 1`, and exactly when that equals `samples_per_frame` the sample counter wraps to 0
and the frame advances by one; `update_ay` is called exactly on sample 0 of a frame — for every
cursor and every samples-per-frame, in the stereo and in the mono loop. -/
theorem advance_rule_extracted (frame fs spf : Nat) :
    Extracted.Vtx.advanceStereo frame fs spf = (if fs + 1 = spf then (frame + 1, 0) else (frame, fs + 1)) ∧
    Extracted.Vtx.advanceMono frame fs spf = (if fs + 1 = spf then (frame + 1, 0) else (frame, fs + 1)) ∧
    Extracted.Vtx.needsUpdateStereo frame fs spf = decide (fs = 0) ∧
    Extracted.Vtx.needsUpdateMono frame fs spf = decide (fs = 0) := by
  refine ⟨?_, ?_, ?_, ?_⟩
  · simp only [Extracted.Vtx.advanceStereo]; by_cases h : fs + 1 = spf <;> simp [h]
  · simp only [Extracted.Vtx.advanceMono]; by_cases h : fs + 1 = spf <;> simp [h]
  · cases fs <;> rfl
  · cases fs <;> rfl

/-- **One loop iteration of the source is the model's `step`**, in every player state (any log, cursor,
samples-per-frame, mono or stereo) and for every backend. -/
theorem step_is_source (B : Backend σ α) (p : Player σ) : srcStep B p = step B p := by
  unfold srcStep step
  have hn : (if p.stereo then Extracted.Vtx.needsUpdateStereo p.frame p.frameSample p.spf
      else Extracted.Vtx.needsUpdateMono p.frame p.frameSample p.spf) = decide (p.frameSample = 0) := by
    cases p.stereo <;> simp [(advance_rule_extracted _ _ _).2.2.1, (advance_rule_extracted _ _ _).2.2.2]
  have ha : ∀ p1 : Player σ, (if p.stereo then Extracted.Vtx.advanceStereo p1.frame p1.frameSample p1.spf
      else Extracted.Vtx.advanceMono p1.frame p1.frameSample p1.spf)
      = (if p1.frameSample + 1 = p1.spf then (p1.frame + 1, 0) else (p1.frame, p1.frameSample + 1)) := by
    intro p1
    cases p.stereo <;> simp [(advance_rule_extracted _ _ _).1, (advance_rule_extracted _ _ _).2.1]
  simp only [hn, ha, decide_eq_true_eq, updateAy_is_source]
  generalize (if p.frameSample = 0 then updateAy B p else some p) = q
  cases q with
  | none => rfl
  | some p1 =>
    by_cases hw : p1.frameSample + 1 = p1.spf <;> simp [hw]

/-- `n` iterations of the source's loop, stopping at the early `return` -/
def srcRun (B : Backend σ α) : Nat → Player σ → Player σ × List α
  | 0, p => (p, [])
  | n + 1, p =>
    match srcStep B p with
    | none => (p, [])
    | some (p', s) =>
      let r := srcRun B n p'
      (r.1, s :: r.2)

/-- any number of iterations of the source's loop is the model's `run`, from every player state -/
theorem run_is_source (B : Backend σ α) (n : Nat) (p : Player σ) : srcRun B n p = run B n p := by
  induction n generalizing p with
  | zero => rfl
  | succ n ih =>
    simp only [srcRun, run, step_is_source]
    cases step B p with
    | none => rfl
    | some r => simp [ih]

/-- **Mono / stereo stride and the returned count.** A stereo iteration takes two buffer slots
(left into slot 0, right into slot 1) and `play` returns twice the iterations; a mono iteration takes
one slot (the left channel) and `play` returns the iterations — the model's `units` / `returned`, for
every buffer length. -/
theorem stride_extracted (stereo : Bool) (n produced : Nat) :
    units stereo n = n / (if stereo then Extracted.Vtx.strideStereo else Extracted.Vtx.strideMono) ∧
    returned stereo produced =
      (if stereo then Extracted.Vtx.returnedStereo produced else Extracted.Vtx.returnedMono produced) ∧
    Extracted.Vtx.storesStereo = [(0, "left"), (1, "right")] ∧ Extracted.Vtx.storesMono = [(0, "left")] := by
  refine ⟨?_, ?_, rfl, rfl⟩
  · cases stereo <;> simp [units, Extracted.Vtx.strideStereo, Extracted.Vtx.strideMono]
  · cases stereo <;> simp [returned, Extracted.Vtx.returnedStereo, Extracted.Vtx.returnedMono]

/-- **Frame schedule, about the source's loop.** A player constructed with the source's
`samples_per_frame = ⌊rate/pf⌋ > 0` and run by the loop assembled from the extracted pieces performs
on its backend exactly the calls of the spec schedule — **frame k's registers are written immediately
before the `next_sample` of output sample k·spf**, in ascending order with R13 = 0xFF left out, nothing
after `frames·spf` samples — and returns exactly the samples those calls produce
(`C20.frame_schedule` through `run_is_source`). -/
theorem frame_schedule_src (B : Backend σ α) (data : List (BitVec 8)) (pf : BitVec 8) (rate : Nat)
    (stereo : Bool) (ay0 : σ) (p0 : Player σ) (h : Player.new data pf.toNat rate stereo ay0 = some p0)
    (hspf : 0 < Extracted.Vtx.samplesPerFrame rate pf) (n : Nat) :
    ((srcRun B n p0).1.ay, (srcRun B n p0).2)
      = applyCalls B ay0 (Spec.schedule data (Extracted.Vtx.samplesPerFrame rate pf) 0 n) ∧
    (srcRun B n p0).2.length = min n (Spec.frames data * Extracted.Vtx.samplesPerFrame rate pf) := by
  rw [run_is_source]
  exact ⟨C20.frame_schedule B data pf.toNat rate stereo ay0 p0 h hspf n,
         (C20.total_samples B data pf.toNat rate stereo ay0 p0 h hspf n).1⟩

/-- **Chunking invariance, about the source's loop**: successive `play` calls (each offering
`len / stride` iterations) equal one run of the source's loop over the total
(`C20.play_chunking_invariant` through `run_is_source`). -/
theorem play_chunking_src (B : Backend σ α) (p : Player σ) (lens : List Nat) :
    playMany B p lens = srcRun B (lens.map (units p.stereo)).sum p := by
  rw [run_is_source]
  exact C20.play_chunking_invariant B p lens

end ZxVerif.C20X
