/-
Spec for C18: the AY-3-8910 / YM2149 chip definition in the property's own words
(DESIGN Appendix E "C18 envelope"), independent of the counters of the implementation.
Time unit: one *tick* = 8 chip clocks (one `update_mixer`).
Executable: the driver evaluates these to adjudicate what the real code shows.
-/
import ZxVerif.Model.Ay
namespace ZxVerif.Ay.Spec
open ZxVerif.Ay

/-- a period register value of 0 acts as 1 -/
def eff (p : Nat) : Nat := if p = 0 then 1 else p

/-- 12-bit tone period from the fine/coarse register pair -/
def tonePeriodOf (fine coarse : BitVec 8) : Nat := fine.toNat + 256 * (coarse.toNat % 16)

/-- **Tone.** A square wave that toggles every `TP` ticks (`TP = 0` as 1): `n` ticks after a toggle
the level has changed `n / TP` times. So the full period is `2·TP` ticks = `16·TP` chip clocks,
`f = f_clk / (16·TP)`. -/
def toneToggles (tp n : Nat) : Nat := n / eff tp

def toneLevel (start : Bool) (tp n : Nat) : Bool := start ^^ (toneToggles tp n % 2 = 1)

/-- **Noise.** 17-bit LFSR, feedback = bit 0 xor bit 3 into bit 16, output bit 0. -/
def lfsr17 (x : BitVec 17) : BitVec 17 :=
  (x >>> 1) ||| (((x ^^^ (x >>> 3)) &&& 1) <<< 16)

/-- the LFSR is clocked every `2·NP` ticks (`NP = 0` as 1): steps after `n` ticks from a step -/
def noiseSteps (np n : Nat) : Nat := n / (2 * eff np)

def iter (f : α → α) : Nat → α → α
  | 0, x => x
  | n + 1, x => iter f n (f x)

/-- shape bits -/
def cont (shape : Nat) : Bool := shape / 8 % 2 = 1
def att (shape : Nat) : Bool := shape / 4 % 2 = 1
def alt (shape : Nat) : Bool := shape / 2 % 2 = 1
def hold (shape : Nat) : Bool := shape % 2 = 1

/-- one ramp of 32 steps: attack 0→31, decay 31→0 -/
def ramp (up : Bool) (j : Nat) : Nat := if up then j else 31 - j

/-- **Envelope.** Level (0..31) after `k` envelope steps (one step per `EP` ticks, `EP = 0` as 1)
since the shape register was written. `d ∈ {1, 2}` is the number of steps an alternating shape
spends at each extreme (triangle period `62` or `64` steps); the other shapes do not depend on it.
First ramp: `ATT ? 0→31 : 31→0`. Then `CONT = 0` ⇒ 0 forever; `HOLD` ⇒ constant
`(ATT xor ALT) ? 31 : 0`; `ALT = 0` ⇒ the same ramp repeats; `ALT = 1` ⇒ ramps alternate. -/
def envLevel (d shape k : Nat) : Nat :=
  if k < 32 then ramp (att shape) k
  else if !cont shape then 0
  else if hold shape then (if att shape ^^ alt shape then 31 else 0)
  else if !alt shape then ramp (att shape) (k % 32)
  else
    let per := 60 + 2 * d          -- 62 or 64
    let half := 30 + d             -- 31 or 32
    let j := k % per
    -- position inside the first ramp (length 32, last value shared with the turn when d = 1)
    if j < 32 then ramp (att shape) j
    else ramp (!att shape) (j - half)

/-- The adjudicating relation: a level sequence is what the shape defines, with either reading of
the turn of alternating shapes. -/
def envAccepts (shape : Nat) (levels : List Nat) : Bool :=
  levels == (List.range levels.length).map (envLevel 2 shape) ||
  levels == (List.range levels.length).map (envLevel 1 shape)

/-- **Mixer and amplitude.** channel out = `(tone ∨ toneOff) ∧ (noise ∨ noiseOff)` × (envelope level
if volume bit 4 else `2·vol + 1`), an index into the 32-entry DAC table. -/
def amplitudeIndex (volReg : BitVec 8) (envLevel : Nat) : Nat :=
  if volReg.toNat / 16 % 2 = 1 then envLevel else 2 * (volReg.toNat % 16) + 1

def channelIndex (r7 volReg : BitVec 8) (ch : Nat) (tone noise : Bool) (envLevel : Nat) : Nat :=
  let toneOff := r7.toNat / 2 ^ ch % 2 = 1
  let noiseOff := r7.toNat / 2 ^ (3 + ch) % 2 = 1
  if (tone || toneOff) && (noise || noiseOff) then amplitudeIndex volReg envLevel else 0

/-- **Stereo placement** per mode as tabulated in `aym/src/lib.rs`. -/
inductive Side | both | left | right
  deriving DecidableEq, Repr

def placement : Mode → Nat → Side
  | .mono, _ => .both
  | .abc, 0 => .left | .abc, 1 => .both | .abc, _ => .right
  | .acb, 0 => .left | .acb, 1 => .right | .acb, _ => .both
  | .bac, 0 => .both | .bac, 1 => .left | .bac, _ => .right
  | .bca, 0 => .right | .bca, 1 => .left | .bca, _ => .both
  | .cab, 0 => .both | .cab, 1 => .right | .cab, _ => .left
  | .cba, 0 => .right | .cba, 1 => .both | .cba, _ => .left

/-- squared (left, right) gains of a placement, in halves: left only (2,0), right only (0,2),
both (1,1) (equal power) -/
def gains2 : Side → Nat × Nat
  | .left => (2, 0) | .right => (0, 2) | .both => (1, 1)

/-- **Register file through the ports.** Register numbers wrap modulo 16; the data port reads
back the last value written to the selected register (all registers read 0 before any write). -/
structure RegFile where
  selected : Nat := 0
  last : Nat → BitVec 8 := fun _ => 0

inductive PortOp | select (v : BitVec 8) | write (v : BitVec 8)
  deriving Repr

def RegFile.step (f : RegFile) : PortOp → RegFile
  | .select v => { f with selected := v.toNat % 16 }
  | .write v => { f with last := fun r => if r = f.selected then v else f.last r }

def RegFile.run (f : RegFile) (ops : List PortOp) : RegFile := ops.foldl RegFile.step f

/-- implemented bits of each register (the property allows a read-back masked to them) -/
def regMask (r : Nat) : BitVec 8 :=
  match r with
  | 1 | 3 | 5 | 13 => 0x0F
  | 6 | 8 | 9 | 10 => 0x1F
  | _ => 0xFF

/-- the read-back the property accepts: the value written, or that value masked -/
def readAccepts (f : RegFile) (got : BitVec 8) : Bool :=
  got == f.last f.selected || got == (f.last f.selected &&& regMask f.selected)

end ZxVerif.Ay.Spec
