/-
Spec for C16, in the property's own words.

* The emulation is *the* trajectory of the machine: `iter step j s0`. "After K frames" is the
  first point of that trajectory at which K frame boundaries have been passed: `runToFrame K s0`
  (iterate `step` until K frame boundaries have passed). Nothing about calls, modes, stopwatches,
  breakpoints or the mixer appears in it.
* Reading `n` bytes from a file at position `pos` yields the next `n` bytes, or fails with
  "unexpected end of file" after delivering what was left: `readExactSpec`. Nothing about how the
  host chops the bytes into reads appears in it.
Executable: the driver evaluates both to adjudicate what the real code returns.
-/
import ZxVerif.Model.Driving
namespace ZxVerif.Driving.Spec
open ZxVerif.Driving

/-- `j` steps -/
def iter {M : Type} (f : M → M) : Nat → M → M
  | 0, m => m
  | j + 1, m => iter f j (f m)

/-- frame boundaries passed during the first `j` steps from `m` -/
def crossedSum {M : Type} (mc : Machine M) : Nat → M → Nat
  | 0, _ => 0
  | j + 1, m => mc.crossed m + crossedSum mc j (mc.step m)

/-- `acc + crossedSum mc j m`, tail-recursive (what the native driver runs; equality:
`crossedSumTR_eq` in Lemmas/Driving.lean) -/
def crossedSumTR {M : Type} (mc : Machine M) : Nat → M → Nat → Nat
  | 0, _, acc => acc
  | j + 1, m, acc => crossedSumTR mc j (mc.step m) (acc + mc.crossed m)

/-- Iterate `step` until `K` frame boundaries have passed (`none`: not within `fuel` steps). -/
def runToFrame {M : Type} (mc : Machine M) : Nat → Nat → M → Option M
  | _, 0, m => some m
  | 0, _ + 1, _ => none
  | fuel + 1, K + 1, m => runToFrame mc fuel (K + 1 - mc.crossed m) (mc.step m)

/-- The next `n` bytes of the file from `pos`; success iff that many were left. -/
def readExactSpec (data : List Byte) (pos n : Nat) : ReadRes :=
  ⟨(data.drop pos).take n, if n ≤ data.length - pos then .ok else .err .unexpectedEof⟩

/-- file position afterwards -/
def posAfter (data : List Byte) (pos n : Nat) : Nat := pos + min n (data.length - pos)

end ZxVerif.Driving.Spec
