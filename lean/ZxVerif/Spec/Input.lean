/-
Spec for C17, in the property's own words: per source, the set of controls whose last event
was a press; a matrix position reads 0 iff some source holds a key there.
Executable: the driver evaluates it to adjudicate what the real code returns.
-/
import ZxVerif.Model.Input
set_option linter.constructorNameAsVariable false
namespace ZxVerif.Input.Spec
open ZxVerif.Input

/-- Sinclair joystick 1 is 6,7,8,9,0 and joystick 2 is 1,2,3,4,5 for left,right,down,up,fire. -/
def sinclairMap : JoyNum → SinclairKey → ZXKey
  | .first, .left => .n6 | .first, .right => .n7 | .first, .down => .n8
  | .first, .up => .n9 | .first, .fire => .n0
  | .second, .left => .n1 | .second, .right => .n2 | .second, .down => .n3
  | .second, .up => .n4 | .second, .fire => .n5

/-- The 8×5 keyboard matrix: which key sits at (half-row, bit). -/
def keyAt : Nat → Nat → Option ZXKey
  | 0, 0 => some .shift | 0, 1 => some .z | 0, 2 => some .x | 0, 3 => some .c | 0, 4 => some .v
  | 1, 0 => some .a | 1, 1 => some .s | 1, 2 => some .d | 1, 3 => some .f | 1, 4 => some .g
  | 2, 0 => some .q | 2, 1 => some .w | 2, 2 => some .e | 2, 3 => some .r | 2, 4 => some .t
  | 3, 0 => some .n1 | 3, 1 => some .n2 | 3, 2 => some .n3 | 3, 3 => some .n4 | 3, 4 => some .n5
  | 4, 0 => some .n0 | 4, 1 => some .n9 | 4, 2 => some .n8 | 4, 3 => some .n7 | 4, 4 => some .n6
  | 5, 0 => some .p | 5, 1 => some .o | 5, 2 => some .i | 5, 3 => some .u | 5, 4 => some .y
  | 6, 0 => some .enter | 6, 1 => some .l | 6, 2 => some .k | 6, 3 => some .j | 6, 4 => some .h
  | 7, 0 => some .space | 7, 1 => some .symShift | 7, 2 => some .m | 7, 3 => some .n | 7, 4 => some .b
  | _, _ => none

/-- Per source: is the control currently held (last event was a press)? Counters are plain
integers: nothing wraps in the spec; the ports show them modulo 16 / 256. -/
structure Held where
  keys : ZXKey → Bool := fun _ => false
  compound : CompoundKey → Bool := fun _ => false
  sinclair : JoyNum → SinclairKey → Bool := fun _ _ => false
  kempston : KempstonKey → Bool := fun _ => false
  buttons : MouseButton → Bool := fun _ => false
  wheel : Int := 0
  dx : Int := 0
  dy : Int := 0

def Held.step (h : Held) : Event → Held
  | .key k p => { h with keys := fun k' => if k' = k then p else h.keys k' }
  | .compound c p => { h with compound := fun c' => if c' = c then p else h.compound c' }
  | .sinclair n k p =>
      { h with sinclair := fun n' k' => if n' = n ∧ k' = k then p else h.sinclair n' k' }
  | .kempston k p => { h with kempston := fun k' => if k' = k then p else h.kempston k' }
  | .mouseButton b p => { h with buttons := fun b' => if b' = b then p else h.buttons b' }
  | .mouseWheel up => { h with wheel := h.wheel + (if up then 1 else -1) }
  | .mouseMove dx dy => { h with dx := h.dx + dx.toInt, dy := h.dy + dy.toInt }

def Held.run (h : Held) (evs : List Event) : Held := evs.foldl Held.step h

def anyCompound (h : Held) : Bool := CompoundKey.all.any h.compound

/-- Some source holds a key at the matrix position of `k`. -/
def positionHeld (h : Held) (k : ZXKey) : Bool :=
  h.keys k
  || CompoundKey.all.any (fun c => h.compound c && decide (c.primaryKey = k))
  || (decide (k = .shift) && anyCompound h)
  || JoyNum.all.any (fun n => SinclairKey.all.any (fun sk => h.sinclair n sk && decide (sinclairMap n sk = k)))

/-- Some source holds the key (if any) at half-row `r`, bit `b`. -/
def cellHeld (h : Held) (r b : Nat) : Bool :=
  match keyAt r b with | some k => positionHeld h k | none => false

/-- Bit `b` of the selected half-rows reads 0. -/
def bitLow (h : Held) (sel : BitVec 8) (b : Nat) : Bool :=
  (List.range 8).any fun r => !sel.getLsbD r && cellHeld h r b

/-- Bit `b` of a ULA port read: bit 6 is the EAR input, bits 0-4 the AND of the selected rows,
bits 5 and 7 read 1. -/
def readBit (h : Held) (sel : BitVec 8) (ear : Bool) (b : Nat) : Bool :=
  if b = 6 then ear else !bitLow h sel b

def ofBits (f : Nat → Bool) : BitVec 8 :=
  (List.range 8).foldl (fun acc b => if f b then acc ||| (1#8 <<< b) else acc) 0

def readUla (h : Held) (sel : BitVec 8) (ear : Bool) : BitVec 8 := ofBits (readBit h sel ear)

/-- Kempston joystick port: OR of the held bits. -/
def kempstonBit (h : Held) (b : Nat) : Bool :=
  KempstonKey.all.any fun k => h.kempston k && k.bit.getLsbD b

def kempstonPort (h : Held) : BitVec 8 := ofBits (kempstonBit h)

/-- Mouse buttons port: buttons active-low in bits 0-3, wheel counter (power-on value 15) in 4-7. -/
def mouseButtonsPort (h : Held) : BitVec 8 :=
  let low := ofBits fun b => b < 4 && !(MouseButton.all.any fun m => h.buttons m && m.bit.getLsbD b)
  low ||| ((BitVec.ofInt 8 (15 + h.wheel)) <<< 4)

/-- X adds, Y subtracts, modulo 256, from the power-on value 255. -/
def mouseX (h : Held) : BitVec 8 := BitVec.ofInt 8 (255 + h.dx)
def mouseY (h : Held) : BitVec 8 := BitVec.ofInt 8 (255 - h.dy)

end ZxVerif.Input.Spec
