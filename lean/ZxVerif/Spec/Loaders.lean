/-
Spec for C15, in the property's own words: loading returns Ok or Err — never a panic, never a
hang — requests no memory out of proportion to the input, and takes a number of steps linear in
the input. Executable: the driver evaluates it to adjudicate what the real code did.
-/
import ZxVerif.Model.Loaders
namespace ZxVerif.Loaders.Spec
open ZxVerif.Loaders

/-- "returns Ok or Err" -/
def acceptable : Outcome → Bool
  | .ok => true
  | .err _ => true
  | _ => false

/-- "memory in proportion to the input": the largest single request is at most the input length
plus a constant (one 64 KiB inflate buffer). `extra` is what an external decompressor legitimately
delivered (0 for the uncompressed formats; twice the decoded LH5 size plus two decode chunks for VTX). -/
def allocBound (len extra : Nat) : Nat := len + extra + 65536

/-- "bounded time": steps (asset calls + loop iterations) linear in the input length -/
def stepBound (len : Nat) : Nat := 4 * len + 256

structure Meets (len extra : Nat) (r : Res) : Prop where
  outcome : acceptable r.outcome = true
  alloc : r.maxAlloc ≤ allocBound len extra
  steps : r.steps ≤ stepBound len

/-- what the LH5 decoder may add to the allocation of a VTX load -/
def vtxExtra (produced : Nat) : Nat := 2 * produced + 2 * VTX_DECODE_CHUNK

/-- verdict on an observed (outcome class acceptable?, largest request) pair -/
inductive Verdict | ok | badOutcome | badAlloc
  deriving DecidableEq, Repr

def judge (len extra : Nat) (acceptableOutcome : Bool) (maxAlloc : Nat) : Verdict :=
  if !acceptableOutcome then .badOutcome
  else if allocBound len extra < maxAlloc then .badAlloc
  else .ok

/-- tape operations: each single operation is Ok/Err and bounded by one block -/
def tapStepBound : Nat := 3 * 65536 + 64

end ZxVerif.Loaders.Spec
