/-
Specs for C04–C07, in the properties' own words (executable; the driver adjudicates with them).
-/
import ZxVerif.Model.Machine
namespace ZxVerif.Machine.Spec
open ZxVerif.Machine

/-! ### C06 — memory map and paging, abstractly -/

/-- What a CPU address means physically. -/
inductive Phys
  | rom (n : Nat) (off : Nat)
  | ram (bank : Nat) (off : Nat)
  deriving DecidableEq, Repr

/-- Abstract 128K machine memory: contents per bank, the last *accepted* paging value, the lock. -/
structure Mem128 where
  banks : Nat → Nat → BitVec 8
  roms : Nat → Nat → BitVec 8
  latch : BitVec 8 := 0
  locked : Bool := false

/-- The property's window function for the 128K: ROM selected by bit 4, bank 5, bank 2,
bank selected by bits 0–2. -/
def window128 (latch : BitVec 8) (addr : BitVec 16) : Phys :=
  let off := addr.toNat % 16384
  match addr.toNat / 16384 with
  | 0 => .rom (if latch &&& 0x10 = 0 then 0 else 1) off
  | 1 => .ram 5 off
  | 2 => .ram 2 off
  | _ => .ram (latch &&& 0x07).toNat off

/-- 48K: one ROM, three fixed 16K RAM areas (named 0,1,2 in address order). -/
def window48 (addr : BitVec 16) : Phys :=
  let off := addr.toNat % 16384
  match addr.toNat / 16384 with
  | 0 => .rom 0 off
  | 1 => .ram 0 off
  | 2 => .ram 1 off
  | _ => .ram 2 off

def Mem128.phys (s : Mem128) (addr : BitVec 16) : Phys := window128 s.latch addr

def Mem128.read (s : Mem128) (addr : BitVec 16) : BitVec 8 :=
  match s.phys addr with
  | .rom n off => s.roms n off
  | .ram b off => s.banks b off

def Mem128.write (s : Mem128) (addr : BitVec 16) (v : BitVec 8) : Mem128 :=
  match s.phys addr with
  | .rom _ _ => s
  | .ram b off => { s with banks := fun b' o' => if b' = b ∧ o' = off then v else s.banks b' o' }

/-- A paging write is accepted unless the lock is set; bit 5 of an accepted value sets the lock. -/
def Mem128.out7ffd (s : Mem128) (v : BitVec 8) : Mem128 :=
  if s.locked then s else { s with latch := v, locked := v &&& 0x20 ≠ 0 }

inductive MemOp
  | out7ffd (v : BitVec 8)
  | write (addr : BitVec 16) (v : BitVec 8)
  deriving Repr

def Mem128.step (s : Mem128) : MemOp → Mem128
  | .out7ffd v => s.out7ffd v
  | .write a v => s.write a v

/-- 48K machine, same record (the latch never changes): three fixed RAM areas. -/
def Mem128.read48 (s : Mem128) (addr : BitVec 16) : BitVec 8 :=
  match window48 addr with
  | .rom n off => s.roms n off
  | .ram b off => s.banks b off

def Mem128.write48 (s : Mem128) (addr : BitVec 16) (v : BitVec 8) : Mem128 :=
  match window48 addr with
  | .rom _ _ => s
  | .ram b off => { s with banks := fun b' o' => if b' = b ∧ o' = off then v else s.banks b' o' }

/-- The displayed screen bank: 5, or 7 while bit 3 of the latch is set. -/
def Mem128.screenBank (s : Mem128) : Nat := if s.latch &&& 0x08 = 0 then 5 else 7

/-! ### C04 — contention delay -/

/-- `(T0, T/line)`: 48K (14335, 224), 128K (14361, 228). -/
def t0 : Kind → Nat | .k48 => 14335 | .k128 => 14361
def lineLen : Kind → Nat | .k48 => 224 | .k128 => 228

/-- Delay 6,5,4,3,2,1,0,0 by (T − T0) mod 8 when T is in the first 128 T-states of one of the
192 picture lines, else none. -/
def specDelay (m : Kind) (t : Nat) : Nat :=
  if t < t0 m then 0
  else if (t - t0 m) / lineLen m ≥ 192 then 0
  else if (t - t0 m) % lineLen m ≥ 128 then 0
  else [6, 5, 4, 3, 2, 1, 0, 0].getD ((t - t0 m) % lineLen m % 8) 0

/-- contended RAM: 48K 0x4000–0x7FFF; 128K banks 1,3,5,7 wherever paged -/
def contended48 (addr : BitVec 16) : Bool := 0x4000 ≤ addr.toNat ∧ addr.toNat < 0x8000

def contendedBank128 (bank : Nat) : Bool := bank % 2 = 1 ∧ bank < 8

/-- One step of a ULA I/O pattern: `N:k` or `C:k`. -/
inductive IoStep | n (k : Nat) | c (k : Nat)
  deriving DecidableEq, Repr

/-- The four ULA port patterns selected by address bit 0 and "high byte contended". -/
def ioPattern (hiContended : Bool) (bit0 : Bool) : List IoStep :=
  match hiContended, bit0 with
  | false, false => [.n 1, .c 3]
  | false, true => [.n 4]
  | true, false => [.c 1, .c 3]
  | true, true => [.c 1, .c 1, .c 1, .c 1]

/-- elapsed time of a pattern started at frame T-state `t` (no frame wrap inside) -/
def runPattern (m : Kind) (t : Nat) : List IoStep → Nat
  | [] => t
  | .n k :: rest => runPattern m (t + k) rest
  | .c k :: rest => runPattern m (t + specDelay m t + k) rest

/-! ### C05 — frame length and INT -/

def frameLen : Kind → Nat | .k48 => 69888 | .k128 => 70908

/-! ### C04 — elapsed time of a bus-cycle trace, by the property's rules -/

/-- what the CPU does on the bus, as far as time is concerned -/
inductive BusOp
  | mem (addr : BitVec 16) (clk : Nat)   -- fetch/read/write/internal T-states carrying `addr`
  | plain (clk : Nat)                     -- internal T-states carrying no address
  | io (port : BitVec 16)                 -- one 4-T port cycle
  deriving Repr

/-- is `addr` in contended memory? (128K: by the bank the latch pages there) -/
def addrContended (m : Kind) (latch : BitVec 8) (addr : BitVec 16) : Bool :=
  match m with
  | .k48 => contended48 addr
  | .k128 => match window128 latch addr with
    | .ram b _ => contendedBank128 b
    | .rom _ _ => false

/-- total time (from the frame start of the first frame) after one bus operation started at
total time `t`; delays are looked up at the in-frame T-state `t % frameLen` -/
def opTime (m : Kind) (latch : BitVec 8) (t : Nat) : BusOp → Nat
  | .mem addr clk => t + (if addrContended m latch addr then specDelay m (t % frameLen m) else 0) + clk
  | .plain clk => t + clk
  | .io port =>
    (ioPattern (addrContended m latch port) (port &&& 1 != 0)).foldl
      (fun t s => match s with
        | .n k => t + k
        | .c k => t + specDelay m (t % frameLen m) + k) t

def traceTime (m : Kind) (latch : BitVec 8) (t : Nat) (ops : List BusOp) : Nat :=
  ops.foldl (opTime m latch) t

/-! ### C07 — device-select predicates (A_n = address bit n) -/

def selUla (p : BitVec 16) : Bool := p &&& 0x0001 = 0
def selPaging (k : Kind) (p : BitVec 16) : Bool := k.is128 && p &&& 0x8002 = 0
def selAySelect (p : BitVec 16) : Bool := p &&& 0xC002 = 0xC000
def selAyData (p : BitVec 16) : Bool := p &&& 0xC002 = 0x8000
def selKempston (cfg : IoCfg) (p : BitVec 16) : Bool := cfg.kempston && p &&& 0x00E0 = 0
/-- any Kempston-mouse register: A0=1, A5=0 -/
def selMouse (cfg : IoCfg) (p : BitVec 16) : Bool := cfg.mouse && p &&& 0x0021 = 0x0001

/-- which mouse register: (A8,A10) = (0,0) buttons, (1,0) X, (1,1) Y; the property names only
these three canonical addresses, so (0,1) may show any mouse register -/
def mouseRegOk (p : BitVec 16) (d : ReadDev) : Bool :=
  let a8 := p &&& 0x0100 != 0
  let a10 := p &&& 0x0400 != 0
  match d with
  | .mouseButtons => !a8
  | .mouseX => (a8 && !a10) || (!a8 && a10)
  | .mouseY => (a8 && a10) || (!a8 && a10)
  | _ => false

/-- exactly one of five claims holds -/
def one5 (a b c d e : Bool) : Bool :=
  (a && !b && !c && !d && !e) || (!a && b && !c && !d && !e) || (!a && !b && c && !d && !e) ||
  (!a && !b && !c && d && !e) || (!a && !b && !c && !d && e)

def none5 (a b c d e : Bool) : Bool := !a && !b && !c && !d && !e

/-- Read: the port selects exactly one of {extender, ULA, mouse, AY, Kempston}. -/
def readExactlyOne (cfg : IoCfg) (p : BitVec 16) : Bool :=
  one5 cfg.extender (selUla p) (selMouse cfg p) (selAySelect p) (selKempston cfg p)

/-- Read: no device claims the port (⇒ floating bus). -/
def readNobody (cfg : IoCfg) (p : BitVec 16) : Bool :=
  none5 cfg.extender (selUla p) (selMouse cfg p) (selAySelect p) (selKempston cfg p)

/-- Is routing a read of `p` to `d` what the property demands? Only meaningful when
`readExactlyOne ∨ readNobody`. -/
def readRouteOk (cfg : IoCfg) (p : BitVec 16) (d : ReadDev) : Bool :=
  match d with
  | .extender => cfg.extender
  | .ula => selUla p
  | .mouseButtons | .mouseX | .mouseY => selMouse cfg p && mouseRegOk p d
  | .ay => selAySelect p
  | .kempston => selKempston cfg p
  | .floating => readNobody cfg p

/-- Write: exactly one of {extender, ULA, AY select, AY data, paging latch}. -/
def writeExactlyOne (cfg : IoCfg) (p : BitVec 16) : Bool :=
  one5 cfg.extender (selUla p) (selAySelect p) (selAyData p) (selPaging cfg.kind p)

def writeNobody (cfg : IoCfg) (p : BitVec 16) : Bool :=
  none5 cfg.extender (selUla p) (selAySelect p) (selAyData p) (selPaging cfg.kind p)

def writeRouteOk (cfg : IoCfg) (p : BitVec 16) (d : WriteDev) : Bool :=
  match d with
  | .extender => cfg.extender
  | .ula => selUla p
  | .aySelect => selAySelect p
  | .ayData => selAyData p
  | .paging => selPaging cfg.kind p
  | .none => writeNobody cfg p

/-- verdict for an observed routing: `some true` fine, `some false` violates the property,
`none` the property says nothing (several devices selected) -/
def readVerdict (cfg : IoCfg) (p : BitVec 16) (d : ReadDev) : Option Bool :=
  if readExactlyOne cfg p || readNobody cfg p then some (readRouteOk cfg p d) else none

def writeVerdict (cfg : IoCfg) (p : BitVec 16) (d : WriteDev) : Option Bool :=
  if writeExactlyOne cfg p || writeNobody cfg p then some (writeRouteOk cfg p d) else none

end ZxVerif.Machine.Spec
