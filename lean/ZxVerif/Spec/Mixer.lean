/-
Spec for C19, in the property's own words:
  every emulated frame delivers exactly ⌊rate/50⌋ samples when the host drains at frame boundaries;
  sample k of a frame carries the speaker/MIC level the program had set at frame time k/spf, an edge
  landing within one sample of the port write that caused it; the queue stays below two frames' worth
  if the host never drains; every sample is within the bound implied by the volume.
Executable: the driver evaluates these to adjudicate what the real code delivers.
-/
import ZxVerif.Model.Mixer
namespace ZxVerif.Mixer.Spec
open ZxVerif.Mixer

/-- samples per emulated frame -/
def perFrame (rate : Nat) : Nat := rate / 50

/-- the queue bound: strictly below two frames' worth -/
def queueOk (spf len : Nat) : Bool := len < 2 * spf

/-- A frame's level timeline: the level at frame start and the port writes `(frame clock, level)` in
chronological order. The level at frame time `num/den` (in frame clocks) is the one set by the last
write with `t ≤ num/den`. -/
def levelAt (init : Level) (writes : List (Nat × Level)) (num den : Nat) : Level :=
  writes.foldl (fun acc w => if w.1 * den ≤ num then w.2 else acc) init

/-- the levels the speaker takes during the closed time window `[lo/den, hi/den]` -/
def levelsIn (init : Level) (writes : List (Nat × Level)) (lo hi den : Nat) : List Level :=
  levelAt init writes lo den ::
    (writes.filter fun w => decide (lo < w.1 * den) && decide (w.1 * den ≤ hi)).map (·.2)

/-- Sample `k` of a frame of length `L` clocks with `spf` samples stands for frame time `k/spf`,
i.e. clock `k·L/spf`. It is acceptable if it equals a level the speaker had within one sample period
of that instant, i.e. in the closed clock window `[(k-1)·L/spf, (k+1)·L/spf]`. -/
def sampleOk (L spf : Nat) (init : Level) (writes : List (Nat × Level)) (k : Nat) (c : Level) : Bool :=
  (levelsIn init writes ((k - 1) * L) ((k + 1) * L) spf).contains c

/-- all samples of a frame batch are acceptable; returns the first offending index -/
def frameOk (L spf : Nat) (init : Level) (writes : List (Nat × Level)) (batch : List Level) : Option Nat :=
  (batch.zipIdx.find? fun x => !sampleOk L spf init writes x.2 x.1).map (·.2)

/-- beeper amplitude bound in units of 1/2000: `(0.5 + 0.1)·vol/200` -/
def valueBound (vol : Nat) : Nat := 6 * vol

end ZxVerif.Mixer.Spec
