/-
Spec for C13/C14, written from the format documents (SNA: the 27-byte header layout of DESIGN
Appendix E; SZX: the zx-state specification — "ZXST" header, chunk = id + 32-bit size + data, the
ZXSTZ80REGS / ZXSTSPECREGS / ZXSTAYBLOCK / ZXSTMOUSE / ZXSTRAMPAGE layouts; SCR: 6912 bytes of
display file), not from the Rust code. A file *describes* an abstract machine state `AState`
(registers, interrupt state, paging, border, RAM pages by their hardware page numbers, AY).
Executable: the driver evaluates it to adjudicate what the real code does.

Page numbering: hardware numbering throughout (page 5 at 0x4000, page 2 at 0x8000, page 0 — or
the page selected by the 7FFD latch — at 0xC000), also for the 48K machine. The model numbers the
48K pages 0,1,2; `absPage` translates.

Deliberately open points (DESIGN §5): a file with ZXSTZF_HALTED may keep PC at the HALT opcode or
after it — `HaltConv` selects the reading and the adjudication accepts either; the presence of a
Kempston *joystick* is not described by any chunk the property names, so it is not part of `AState`;
MEMPTR / Q, the frame T-state counter and the beeper level are not in the property's list either.
-/
import ZxVerif.Model.Snapshot
namespace ZxVerif.Snap.Spec
open ZxVerif.Snap

/-- The architected Z80 state every format carries (SNA leaves IFF1 = IFF2). -/
structure Regs where
  af : BitVec 16 := 0
  bc : BitVec 16 := 0
  de : BitVec 16 := 0
  hl : BitVec 16 := 0
  af' : BitVec 16 := 0
  bc' : BitVec 16 := 0
  de' : BitVec 16 := 0
  hl' : BitVec 16 := 0
  ix : BitVec 16 := 0
  iy : BitVec 16 := 0
  sp : BitVec 16 := 0
  pc : BitVec 16 := 0
  i : Byte := 0
  r : Byte := 0
  iff1 : Bool := false
  iff2 : Bool := false
  im : Nat := 0
  deriving DecidableEq, Repr, Inhabited

structure AState where
  model : Kind
  regs : Regs := {}
  /-- the CPU sits in a HALT until the next accepted interrupt; `regs.pc` is then the address of
  that HALT opcode -/
  halted : Bool := false
  /-- the last instruction was EI/DI: no interrupt is accepted before the next instruction -/
  eiPending : Bool := false
  /-- the CPU has consumed a prefix byte of an unfinished instruction (never described by a file) -/
  midInstr : Bool := false
  /-- last value written to port 7FFD (128K only; 0 on the 48K) -/
  latch : Byte := 0
  /-- paging disabled until reset (latch bit 5 was written) -/
  locked : Bool := false
  /-- border colour as the machine reports it -/
  border : Byte := 0
  /-- border colour the ULA paints -/
  borderShown : Byte := 0
  /-- RAM page n — as the CPU reads it and, for the displayable pages 5 and 7, as the display
  reads it: in the described machine the display has no memory of its own -/
  page : Nat → Bytes := fun _ => []
  ayPresent : Bool := false
  ayRegs : Bytes := List.replicate 16 0
  aySel : Nat := 0
  /-- the 14 registers the sound generator works from -/
  ayAudible : Bytes := List.replicate 14 0
  /-- the envelope generator is at the start of its shape (as after a write to register 13) -/
  ayEnvAtStart : Bool := true
  mouse : Bool := false
  deriving Inhabited

def w16 (l h : Byte) : BitVec 16 := (h.zeroExtend 16 <<< 8) ||| l.zeroExtend 16
def lo8 (w : BitVec 16) : Byte := w.truncate 8
def hi8 (w : BitVec 16) : Byte := (w >>> 8).truncate 8

/-- RAM pages a machine model has -/
def pagesOf : Kind → List Nat
  | .k48 => [5, 2, 0]
  | .k128 => [0, 1, 2, 3, 4, 5, 6, 7]

/-- pages the display can show -/
def shownPagesOf : Kind → List Nat
  | .k48 => [5]
  | .k128 => [5, 7]

def setPage (p : Nat → Bytes) (n : Nat) (d : Bytes) : Nat → Bytes := fun k => if k = n then d else p k

def AState.withPage (a : AState) (n : Nat) (d : Bytes) : AState :=
  { a with page := setPage a.page n d }

/-- page the CPU sees in the 16K block `blk` = 1,2,3 -/
def AState.pageAt (a : AState) (blk : Nat) : Nat :=
  match blk with
  | 1 => 5
  | 2 => 2
  | _ => match a.model with
    | .k48 => 0
    | .k128 => (a.latch &&& 7).toNat

/-- byte at a CPU address ≥ 0x4000 -/
def AState.peek (a : AState) (addr : Nat) : Byte :=
  (a.page (a.pageAt (addr / 16384))).getD (addr % 16384) 0

/-! ### SNA (DESIGN Appendix E) -/

/-- `I, HL', DE', BC', AF', HL, DE, BC, IY, IX, IFF2<<2, R, AF, SP, IM, border`, little-endian -/
def snaHeader (g : Regs) (sp : BitVec 16) (border : Byte) : Bytes :=
  [g.i, lo8 g.hl', hi8 g.hl', lo8 g.de', hi8 g.de', lo8 g.bc', hi8 g.bc', lo8 g.af', hi8 g.af',
   lo8 g.hl, hi8 g.hl, lo8 g.de, hi8 g.de, lo8 g.bc, hi8 g.bc, lo8 g.iy, hi8 g.iy, lo8 g.ix, hi8 g.ix,
   if g.iff2 then 4 else 0, g.r, lo8 g.af, hi8 g.af, lo8 sp, hi8 sp, BitVec.ofNat 8 g.im, border]

/-- What SNA keeps of the Z80 state: everything except IFF1 (the header stores IFF2 only; a loaded
machine has IFF1 = IFF2). -/
def snaCarried (g : Regs) : Regs := { g with iff1 := g.iff2 }

/-- the six banks after the secondary header: ascending, without the one already stored third -/
def snaTail (n : Nat) : List Nat := [0, 1, 3, 4, 6, 7].filter (· != n)

/-- 128K file of a state: header, banks 5, 2, n, `PC, latch, 0`, the remaining banks -/
def sna128 (a : AState) : Bytes :=
  let n := (a.latch &&& 7).toNat
  snaHeader a.regs a.regs.sp a.border ++ a.page 5 ++ a.page 2 ++ a.page n ++
    [lo8 a.regs.pc, hi8 a.regs.pc, a.latch, 0] ++ (snaTail n).flatMap a.page

/-- a CPU write: lost below 0x4000 (ROM), else into the page mapped there -/
def AState.poke (a : AState) (addr : Nat) (v : Byte) : AState :=
  if addr < 16384 then a else
  let n := a.pageAt (addr / 16384)
  a.withPage n ((a.page n).set (addr % 16384) v)

/-- RAM 0x4000–0xFFFF of a 48K state with PC pushed (a write to ROM is lost) -/
def pushed48 (a : AState) : AState :=
  let sp := a.regs.sp
  (a.poke (sp - 1).toNat (hi8 a.regs.pc)).poke (sp - 2).toNat (lo8 a.regs.pc)

/-- 48K file of a state: header with SP already decremented, then the 48 KiB with PC pushed -/
def sna48 (a : AState) : Bytes :=
  let b := pushed48 a
  snaHeader a.regs (a.regs.sp - 2) a.border ++ b.page 5 ++ b.page 2 ++ b.page 0

def snaOf (a : AState) : Bytes :=
  match a.model with
  | .k48 => sna48 a
  | .k128 => sna128 a

/-- registers of a header (PC is not part of it) -/
def snaRegs (h : Bytes) (pc : BitVec 16) : Regs :=
  let g (k : Nat) : Byte := h.getD k 0
  let iff := g 19 &&& 4 != 0
  { i := g 0, hl' := w16 (g 1) (g 2), de' := w16 (g 3) (g 4), bc' := w16 (g 5) (g 6),
    af' := w16 (g 7) (g 8), hl := w16 (g 9) (g 10), de := w16 (g 11) (g 12), bc := w16 (g 13) (g 14),
    iy := w16 (g 15) (g 16), ix := w16 (g 17) (g 18), iff1 := iff, iff2 := iff, r := g 20,
    af := w16 (g 21) (g 22), sp := w16 (g 23) (g 24), im := (g 25 &&& 3).toNat, pc := pc }

def chunk16 (f : Bytes) (k : Nat) (off : Nat) : Bytes := (f.drop (off + 16384 * k)).take 16384

/-- file model by length: 49179 = 48K, 131103 or 147487 = 128K -/
def snaModel (f : Bytes) : Option Kind :=
  if f.length = 49179 then some .k48
  else if f.length = 131103 ∨ f.length = 147487 then some .k128
  else none

/-- A loaded snapshot is a machine at an instruction boundary, not halted, not mid-instruction. -/
def AState.atBoundary (a : AState) : AState :=
  { a with halted := false, eiPending := false, midInstr := false }

/-- consecutive 16 KiB pieces of the file, starting with piece `k` after offset `base`, become the
listed pages in order -/
def pagesFrom (f : Bytes) (base : Nat) : List Nat → Nat → AState → AState
  | [], _, a => a
  | p :: ps, k, a => pagesFrom f base ps (k + 1) (a.withPage p (chunk16 f k base))

/-- What a well-formed SNA file says about the machine that loads it (`prev` supplies what the
format does not carry: AY, mouse). `none`: not well-formed (wrong length, interrupt mode 3, a
128K file whose length does not fit its latch, a 48K file whose stack pointer points into ROM). -/
def describeSna (f : Bytes) (prev : AState) : Option AState :=
  if (f.getD 25 0 &&& 3).toNat = 3 then none else
  match snaModel f with
  | none => none
  | some .k48 =>
    let g := snaRegs f 0
    -- a stack pointer into ROM leaves PC to the ROM contents: not described by the file
    if g.sp.toNat < 16384 ∨ (g.sp + 1).toNat < 16384 then none else
    let a := { prev.atBoundary with model := .k48, border := f.getD 26 0 &&& 7, borderShown := f.getD 26 0 &&& 7 }
    let a := pagesFrom f 27 [5, 2, 0] 0 a
    -- PC is popped: the two bytes at SP
    let pc := w16 (a.peek g.sp.toNat) (a.peek (g.sp + 1).toNat)
    some { a with regs := { g with pc := pc, sp := g.sp + 2 } }
  | some .k128 =>
    let latch := f.getD 49181 0
    let n := (latch &&& 7).toNat
    -- a duplicate third bank is only present when n is 2 or 5
    if (n = 2 ∨ n = 5) ≠ (f.length = 147487) then none else
    let g := snaRegs f (w16 (f.getD 49179 0) (f.getD 49180 0))
    let a := { prev.atBoundary with model := .k128, regs := g, latch := latch, locked := latch &&& 0x20 != 0,
                                    border := f.getD 26 0 &&& 7, borderShown := f.getD 26 0 &&& 7 }
    some (pagesFrom f 49183 (snaTail n) 0 (pagesFrom f 27 [5, 2, n] 0 a))

/-! ### SZX (zx-state) -/

inductive HaltConv
  /-- a halted file keeps PC at the HALT opcode -/
  | pcAtHalt
  /-- a halted file keeps PC after the HALT opcode -/
  | pcAfterHalt
  deriving DecidableEq, Repr

structure Chunk where
  id : Bytes
  data : Bytes
  deriving Repr

def u32 (f : Bytes) (off : Nat) : Nat :=
  (f.getD off 0).toNat + 256 * (f.getD (off + 1) 0).toNat + 65536 * (f.getD (off + 2) 0).toNat
    + 16777216 * (f.getD (off + 3) 0).toNat

/-- the chunk sequence after the 8-byte header; `none` if a chunk overruns the file -/
def parseChunks : Nat → Bytes → Option (List Chunk)
  | 0, _ => some []
  | fuel + 1, f =>
    if f.length < 8 then some [] else
    let size := u32 f 4
    if f.length < 8 + size then none else
    match parseChunks fuel (f.drop (8 + size)) with
    | none => none
    | some cs => some ({ id := f.take 4, data := (f.drop 8).take size } :: cs)

/-- chunk ids (four ASCII characters) -/
def kZ80R : Bytes := [0x5A, 0x38, 0x30, 0x52]
def kSPCR : Bytes := [0x53, 0x50, 0x43, 0x52]
def kAY : Bytes := [0x41, 0x59, 0, 0]
def kKEYB : Bytes := [0x4B, 0x45, 0x59, 0x42]
def kAMXM : Bytes := [0x41, 0x4D, 0x58, 0x4D]
def kRAMP : Bytes := [0x52, 0x41, 0x4D, 0x50]
def kCRTR : Bytes := [0x43, 0x52, 0x54, 0x52]
def knownIds : List Bytes := [kZ80R, kSPCR, kAY, kKEYB, kAMXM, kRAMP, kCRTR]

/-- ZXSTZ80REGS: AF BC DE HL AF' BC' DE' HL' IX IY SP PC I R IFF1 IFF2 IM dwCyclesStart(4)
chHoldIntReqCycles chFlags wMemPtr; chFlags bit 0 = EILAST, bit 1 = HALTED -/
def applyZ80R (conv : HaltConv) (d : Bytes) (a : AState) : AState :=
  let g (k : Nat) : Byte := d.getD k 0
  let w (k : Nat) : BitVec 16 := w16 (g k) (g (k + 1))
  let halted := g 34 &&& 2 != 0
  let pc := if halted ∧ conv = .pcAfterHalt then w 22 - 1 else w 22
  { a with regs := { af := w 0, bc := w 2, de := w 4, hl := w 6, af' := w 8, bc' := w 10, de' := w 12,
                     hl' := w 14, ix := w 16, iy := w 18, sp := w 20, pc := pc, i := g 24, r := g 25,
                     iff1 := g 26 ≠ 0, iff2 := g 27 ≠ 0, im := (g 28).toNat },
           halted := halted, eiPending := g 34 &&& 1 != 0, midInstr := false }

/-- ZXSTSPECREGS: chBorder ch7ffd ch1ffd chFe -/
def applySPCR (mid : Nat) (d : Bytes) (a : AState) : AState :=
  let a := { a with border := d.getD 0 0, borderShown := d.getD 0 0 }
  if mid < 2 then a else { a with latch := d.getD 1 0, locked := d.getD 1 0 &&& 0x20 != 0 }

/-- ZXSTAYBLOCK: chFlags (bit 1: 128K-style AY on a 48K machine) chCurrentRegister chAyRegs[16] -/
def applyAY (mid : Nat) (d : Bytes) (a : AState) : AState :=
  let a := if mid < 2 then { a with ayPresent := d.getD 0 0 &&& 2 != 0 } else a
  if !a.ayPresent then a else
  -- a machine that has just had its registers written: the envelope starts its shape from the beginning
  { a with aySel := (d.getD 1 0 &&& 15).toNat, ayRegs := (d.drop 2).take 16, ayAudible := (d.drop 2).take 14,
           ayEnvAtStart := true }

/-- ZXSTMOUSE: chType 0 none, 1 AMX, 2 Kempston -/
def applyMouse (d : Bytes) (a : AState) : AState := { a with mouse := d.getD 0 0 = 2 }

/-- ZXSTRAMPAGE: wFlags (bit 0 compressed) chPageNo data -/
def applyRAMP (inflate : Bytes → Option Bytes) (d : Bytes) (a : AState) : AState :=
  let n := (d.getD 2 0).toNat
  let raw := d.drop 3
  let bytes := if d.getD 0 0 &&& 1 != 0 then (inflate raw).getD [] else raw
  a.withPage n (bytes.take 16384)

def applyChunk (conv : HaltConv) (inflate : Bytes → Option Bytes) (mid : Nat) (a : AState) (c : Chunk) : AState :=
  if c.id = kZ80R then applyZ80R conv c.data a
  else if c.id = kSPCR then applySPCR mid c.data a
  else if c.id = kAY then applyAY mid c.data a
  else if c.id = kAMXM then applyMouse c.data a
  else if c.id = kRAMP then applyRAMP inflate c.data a
  else a

/-- well-formedness of one chunk for a machine id (sizes as the format fixes them; unknown ids
must not be case variants of known ones, because readers may fold case) -/
def chunkOk (inflate : Bytes → Option Bytes) (mid : Nat) (c : Chunk) : Bool :=
  if c.id = kZ80R then c.data.length == 37 && (c.data.getD 28 0).toNat < 3
  else if c.id = kSPCR then c.data.length == 8 && (c.data.getD 0 0).toNat < 8
  else if c.id = kAY then c.data.length == 18
  else if c.id = kAMXM then c.data.length == 7 && (c.data.getD 0 0).toNat < 3
  else if c.id = kKEYB then c.data.length == 5
  else if c.id = kCRTR then 37 ≤ c.data.length
  else if c.id = kRAMP then
    3 ≤ c.data.length &&
    (if mid < 2 then (c.data.getD 2 0).toNat ∈ [5, 2, 0] else (c.data.getD 2 0).toNat < 8) &&
    (if c.data.getD 0 0 &&& 1 != 0 then
        match inflate (c.data.drop 3) with
        | some x => x.length == 16384
        | none => false
     else c.data.length == 3 + 16384)
  else (c.id.map upperByte) ∉ knownIds

/-- header: "ZXST", major, minor, machine id (0 = 16K, 1 = 48K, 2 = 128K), flags -/
def szxMachine (f : Bytes) : Option Nat :=
  if f.length < 8 ∨ f.take 4 ≠ [0x5A, 0x58, 0x53, 0x54] then none
  else if 2 < (f.getD 6 0).toNat then none else some (f.getD 6 0).toNat

def kindOfMid (mid : Nat) : Kind := if mid < 2 then .k48 else .k128

/-- What a well-formed SZX file says about the machine that loads it. -/
def describeSzx (conv : HaltConv) (inflate : Bytes → Option Bytes) (f : Bytes) (prev : AState) : Option AState :=
  match szxMachine f with
  | none => none
  | some mid =>
    match parseChunks f.length (f.drop 8) with
    | none => none
    | some cs =>
      if cs.all (chunkOk inflate mid) then
        -- a loaded machine starts at an instruction boundary; the chunks then say the rest
        some (cs.foldl (applyChunk conv inflate mid) { prev.atBoundary with model := kindOfMid mid })
      else none

/-! ### SCR -/

/-- 6912 bytes of display file: they replace the start of the page at 0x4000; the CPU is parked
(the property fixes nothing about where). -/
def describeScr (f : Bytes) (prev : AState) : Option AState :=
  if f.length ≠ 6912 then none else
  some (prev.withPage 5 (f ++ (prev.page 5).drop 6912))

/-! ### refinement map: the abstract state of a model machine -/

/-- hardware page number → bank index of the model's machine -/
def absPage (k : Kind) (n : Nat) : Nat :=
  match k with
  | .k48 => if n = 5 then 0 else if n = 2 then 1 else if n = 0 then 2 else 8
  | .k128 => n

def absRegs (c : Cpu) : Regs :=
  { af := w16 c.f c.a, bc := w16 c.c c.b, de := w16 c.e c.d, hl := w16 c.l c.h,
    af' := w16 c.f' c.a', bc' := w16 c.c' c.b', de' := w16 c.e' c.d', hl' := w16 c.l' c.h',
    ix := c.ix, iy := c.iy, sp := c.sp, pc := c.pc, i := c.i, r := c.r,
    iff1 := c.iff1, iff2 := c.iff2, im := c.im }

def abs (m : Machine) : AState :=
  { model := m.kind, regs := absRegs m.cpu, halted := m.cpu.halted, eiPending := m.cpu.skipInt,
    midInstr := m.cpu.pfx != .none,
    latch := m.latch, locked := m.kind == .k128 && !m.pagingEnabled,
    border := m.border, borderShown := m.borderDev,
    page := fun n => m.ram (absPage m.kind n),
    ayPresent := m.ayEnabled, ayRegs := m.ayRegs, aySel := m.aySel, ayAudible := m.ayChip,
    ayEnvAtStart := m.ayEnvAtStart,
    mouse := m.mouse }

end ZxVerif.Snap.Spec
