/-
Specs for the tape properties, in the properties' own vocabulary (DESIGN.md Appendix E):
  C10  `ldBytes`  — byte-level reading of ROM LD-BYTES 0x0556–0x05E2
  C11  `nominal`  — the standard loader waveform of a tape, `accepts` — the tolerance relation
  C12  `Deck`     — a cassette deck as a cursor into the pulse list
The spec shares with the model only the memory type (`Mem`: 64 K, stores below 0x4000 ignored),
the request record and the byte type.
-/
import ZxVerif.Model.Tape
set_option linter.constructorNameAsVariable false
namespace ZxVerif.Tape.Spec

/-! ## TAP container: blocks of a byte string -/

/-- Splits a TAP image into its complete blocks (`len_lo len_hi payload`) and the tail that is
not a complete block (empty, a stray byte, or a header whose payload is cut short). -/
def parse : Nat → List Byte → List (List Byte) × List Byte
  | 0, d => ([], d)
  | fuel + 1, d =>
    match d with
    | lo :: hi :: rest =>
      let n := lo.toNat + 256 * hi.toNat
      if n ≤ rest.length then
        let (bs, tail) := parse fuel (rest.drop n)
        (rest.take n :: bs, tail)
      else ([], d)
    | _ => ([], d)

def blocks (data : List Byte) : List (List Byte) := (parse (data.length + 1) data).1
def tail (data : List Byte) : List Byte := (parse (data.length + 1) data).2

/-- TAP encoding of a block list (inverse of `parse` for blocks shorter than 65536) -/
def encodeBlock (bs : List Byte) : List Byte :=
  BitVec.ofNat 8 (bs.length % 256) :: BitVec.ofNat 8 (bs.length / 256) :: bs

def encode (blocks : List (List Byte)) : List Byte := (blocks.map encodeBlock).flatten

/-! ## C10: LD-BYTES -/

/-- what the caller of LD-BYTES can observe afterwards -/
structure LdResult where
  mem : Mem
  ix : BitVec 16
  de : BitVec 16
  carry : Bool

/-- The byte loop of LD-BYTES. `checked`: the flag byte has been dealt with; `h`: parity so far. -/
def ldLoop (a : Byte) (load : Bool) :
    Bool → Byte → BitVec 16 → BitVec 16 → Mem → List Byte → LdResult
  | _, _, ix, de, m, [] => ⟨m, ix, de, false⟩            -- silence after the last byte: time-out
  | checked, h, ix, de, m, l :: rest =>
    let h := h ^^^ l
    if de = 0 then ⟨m, ix, de, h = 0⟩                     -- LD A,H; CP 1
    else if !checked then
      if a ≠ l then ⟨m, ix, de, false⟩                    -- LD-FLAG: XOR L; RET NZ
      else ldLoop a load true h ix de m rest
    else if load then
      ldLoop a load true h (ix + 1) (de - 1) (m.write ix l) rest
    else if m.read ix ≠ l then ⟨m, ix, de, false⟩          -- LD-VERIFY: XOR L; RET NZ
    else ldLoop a load true h (ix + 1) (de - 1) m rest

/-- LD-BYTES reading the block `bs`: the flag byte is checked unless D = 0xFF at entry
(`INC D` leaves Z set only then). -/
def ldBytes (r : Request) (m : Mem) (bs : List Byte) : LdResult :=
  ldLoop r.a r.load (r.de.toNat / 256 = 255) 0 r.ix r.de m bs

/-- The tape as LD-BYTES sees it: the blocks still ahead. A request against a tape with no block
left does not complete and changes nothing (`none`). -/
def request (r : Request) (m : Mem) : List (List Byte) → Option LdResult × List (List Byte)
  | [] => (none, [])
  | bs :: rest => (some (ldBytes r m bs), rest)

/-! ## C11: the standard waveform -/

/-- pulses of one byte, most significant bit first, two equal pulses per bit -/
def bytePulses (b : Byte) : List Nat :=
  (List.range 8).flatMap fun i =>
    let len := if b.getLsbD (7 - i) then 1710 else 855
    [len, len]

def pilotCount (flag : Byte) : Nat := if flag = 0 then 8063 else 3223

/-- One block (`flag :: rest`, i.e. non-empty): pilot, two sync pulses, the bits of every byte;
the last data pulse is closed by an edge, then the pause follows. -/
def blockPulses : List Byte → List Nat
  | [] => []
  | flag :: rest =>
    List.replicate (pilotCount flag) 2168 ++ [667, 735] ++ (flag :: rest).flatMap bytePulses
      ++ [3500000]

/-- The pulse lengths of a whole tape, in order. Levels alternate at every pulse boundary and the
first pulse of the tape is high; every block has an even number of pulses, so every block starts
high and every pause is low. -/
def nominal (blocks : List (List Byte)) : List Nat := blocks.flatMap blockPulses

/-- level during pulse number `k` (0-based) -/
def levelOf (k : Nat) : Bool := k % 2 = 0

/-- Tolerance of the property: an actual pulse of nominal length `L` lasts `L … L+32`. -/
def pulseOk (nominalLen actual : Nat) : Bool := nominalLen ≤ actual && actual ≤ nominalLen + 32

/-- `actual` (measured pulse lengths, first pulse first) is an acceptable rendering of a prefix of
the nominal sequence. -/
def withinTolerance : List Nat → List Nat → Bool
  | _, [] => true
  | [], _ :: _ => false
  | n :: ns, a :: as => pulseOk n a && withinTolerance ns as

/-- Looser acceptance for the real code (what the property text fixes): the pilot of a data block
may have more than 3223 pulses and the pause is "about one second" (3.0–4.5 M T-states).
`measured` are the pulse lengths of ONE block including its pause. -/
def acceptsBlock (bs : List Byte) (measured : List Nat) : Bool :=
  match bs with
  | [] => false
  | flag :: _ =>
    let pilot := measured.takeWhile (fun a => pulseOk 2168 a)
    let restM := measured.drop pilot.length
    let body := [667, 735] ++ bs.flatMap bytePulses
    let pilotOk := if flag = 0 then pilot.length = 8063 else pilot.length ≥ 3223
    let pause := restM.drop body.length
    decide pilotOk && pilot.length % 2 = 1 && restM.length = body.length + 1
      && withinTolerance body (restM.take body.length)
      && (match pause with | [p] => 3000000 ≤ p && p ≤ 4500000 | _ => false)

/-- The same tolerance for a pulse that was only *sampled*: its true length is known to lie strictly
between `lo` and `hi` (edges located between two samples). Acceptable iff some length in that open
interval is within tolerance — the tolerance widened by exactly the sampling resolution. -/
def pulseOkWide (nominalLen lo hi : Nat) : Bool := max (lo + 1) nominalLen ≤ min (hi - 1) (nominalLen + 32)

/-- The first `k` pulses together, sampled: their total length lies strictly between `lo` and `hi`.
If every pulse is within tolerance the total is within `total … total + 32·k`; acceptable iff some
total in the open interval is. (This is what still bites when single samples are far apart.) -/
def sumOkWide (nominalSum k lo hi : Nat) : Bool := max (lo + 1) nominalSum ≤ min (hi - 1) (nominalSum + 32 * k)

def withinToleranceWide : List Nat → List (Nat × Nat) → Bool
  | _, [] => true
  | [], _ :: _ => false
  | n :: ns, a :: as => pulseOkWide n a.1 a.2 && withinToleranceWide ns as

/-- `acceptsBlock` for sampled pulses `(lo, hi)`; `pauseSeen = false`: the observation ended in the
silence after the block (last block of the tape), so the pause itself was not measured. -/
def acceptsBlockWide (bs : List Byte) (measured : List (Nat × Nat)) (pauseSeen : Bool) : Bool :=
  match bs with
  | [] => false
  | flag :: _ =>
    let pilot := measured.takeWhile (fun a => pulseOkWide 2168 a.1 a.2)
    let restM := measured.drop pilot.length
    let body := [667, 735] ++ bs.flatMap bytePulses
    let pilotOk := if flag = 0 then pilot.length = 8063 else pilot.length ≥ 3223
    let pause := restM.drop body.length
    decide pilotOk && restM.length = body.length + (if pauseSeen then 1 else 0)
      && withinToleranceWide body (restM.take body.length)
      && (match pause with
          | [p] => 3000000 < p.2 && p.1 < 4500000
          | [] => !pauseSeen
          | _ => false)

/-- A decoder that classifies a pair of equal pulses by a threshold: bit = 1 iff longer. -/
def decodeBits (threshold : Nat) : List Nat → List Bool
  | a :: _ :: rest => (decide (a > threshold)) :: decodeBits threshold rest
  | _ => []

def bitsToByte (bits : List Bool) : BitVec 8 :=
  bits.foldl (fun (acc : BitVec 8) b => (acc <<< (1 : Nat)) ||| (BitVec.ofBool b).setWidth 8) 0#8

def decodeBytes (threshold : Nat) : Nat → List Nat → List Byte
  | 0, _ => []
  | fuel + 1, ps =>
    if ps.length < 16 then []
    else bitsToByte (decodeBits threshold (ps.take 16)) :: decodeBytes threshold fuel (ps.drop 16)

/-! ## C12: the cassette deck -/

/-- A deck: the pulse list of the inserted tape, the pulses not yet started, how many have been
started since the beginning of the tape (`0` = nothing played yet), T-states left of the current
pulse, the EAR level, motor on/off. -/
structure Deck where
  tape : List Nat          -- `nominal` of the inserted tape
  ahead : List Nat         -- pulses still to come
  started : Nat := 0
  remaining : Nat := 0
  level : Bool := false
  playing : Bool := false
  deriving DecidableEq, Repr

def Deck.init (blocks : List (List Byte)) : Deck := { tape := nominal blocks, ahead := nominal blocks }

def Deck.rewind (d : Deck) : Deck :=
  { d with ahead := d.tape, started := 0, remaining := 0, level := false }

/-- `advance n` while playing: the current pulse runs down (in steps, as the machine samples the
tape once per bus wait); when it has run out the next call starts the next pulse — its level is
fixed by its position — and running off the end rewinds and stops. -/
def Deck.advance (d : Deck) (n : Nat) : Deck :=
  if !d.playing then d
  else if d.remaining > 0 then { d with remaining := if n > d.remaining then 0 else d.remaining - n }
  else
    match d.ahead with
    | len :: rest =>
      { d with ahead := rest, started := d.started + 1, remaining := len, level := levelOf d.started }
    | [] => { d.rewind with playing := false }

def Deck.cmd (d : Deck) : DeckCmd → Deck
  | .play => { d with playing := true }
  | .stop => { d with playing := false }
  | .rewind => d.rewind
  | .advance n => d.advance n

end ZxVerif.Tape.Spec
