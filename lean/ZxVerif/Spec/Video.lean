/-
Executable specifications for C08 (screen decode) and C09 (border), in the vocabulary of the
property texts (DESIGN.md Appendix E). Nothing here looks at how the emulator is built: the
inputs are "the 6912 bytes the ULA sees", "the number of completed frames", "the list of
(frame clock, colour) port writes of a frame".
Deliberately loose points: the flash *origin* is free (only the 16-frame period is fixed);
border pixels may show the old or the new colour within 16 px of the beam position on a line;
"clearly before/after" the beam means a margin of at least 8 T-states.
-/
import ZxVerif.Model.Video
namespace ZxVerif.Video.Spec

/-! ## C08 -/

/-- offset of the display byte of pixel (x, y) -/
def bitmapOffset (x y : Nat) : Nat :=
  ((y &&& 0xC0) <<< 5) ||| ((y &&& 7) <<< 8) ||| ((y &&& 0x38) <<< 2) ||| (x >>> 3)

/-- offset of the attribute byte of pixel (x, y) -/
def attrOffset (x y : Nat) : Nat := 0x1800 + (y >>> 3) * 32 + (x >>> 3)

/-- The standard decode of a 6912-byte screen `mem` at pixel (x, y), `x < 256`, `y < 192`:
(colour, bright). `phase` = the FLASH cells currently show ink and paper swapped. -/
def stdDecode (mem : Nat → BitVec 8) (phase : Bool) (x y : Nat) : BitVec 3 × Bool :=
  let b := mem (bitmapOffset x y)
  let a := mem (attrOffset x y)
  let on := b.getLsbD (7 - x % 8)
  let flashOn := a.getLsbD 7 && phase
  (if on ^^ flashOn then (a &&& 7).setWidth 3 else ((a >>> 3) &&& 7).setWidth 3, a.getLsbD 6)

/-- the same as a frame-buffer pixel code -/
def stdPx (mem : Nat → BitVec 8) (phase : Bool) (x y : Nat) : Px :=
  let d := stdDecode mem phase x y
  pxCode d.1 d.2

/-- flash phase after `n` completed frames for window alignment `k`: swaps every 16 frames -/
def phaseAt (k n : Nat) : Bool := ((n + k) / 16) % 2 = 1

/-- the alignment the code has (first toggle at the very first frame end) -/
def codePhaseOrigin : Nat := 15

/-- Adjudication of an observed run: `obs` lists (completed frames, observed phase); it is
acceptable iff *some* alignment of the 16-frame windows explains all of it. -/
def flashOk (obs : List (Nat × Bool)) : Bool :=
  (List.range 32).any fun k => obs.all fun o => phaseAt k o.1 == o.2

/-- which RAM bank the ULA displays: 48K: the RAM at 0x4000 (page 0 of the emulator's 48K RAM);
128K: bank 5, or bank 7 while bit 3 of the paging latch is set -/
def visibleBank (m : Machine) (latch : BitVec 8) : Nat :=
  match m with
  | .k48 => 0
  | .k128 => if latch.getLsbD 3 then 7 else 5

/-- frame clock at which the ULA reaches the display byte of character column `col` of line `y` -/
def fetchClock (m : Machine) (y col : Nat) : Nat := m.firstPixel + y * m.clocksLine + 4 * col

/-- a write completed at frame clock `t` is clearly before the beam reaches (y, col) -/
def clearlyBefore (m : Machine) (t y col : Nat) : Bool := t + 8 ≤ fetchClock m y col

/-- … clearly after -/
def clearlyAfter (m : Machine) (t y col : Nat) : Bool := fetchClock m y col + 8 ≤ t

/-! ## C09 -/

/-- frame clock of border pixel (0, 0): first picture pixel minus 24 lines minus 16 T, plus 1 -/
def borderOrigin (m : Machine) : Nat := m.firstPixel - 24 * m.clocksLine - 16 + 1

/-- Beam position (linear index `line * 320 + px` into the 320x240 border buffer) from which a
port write at frame clock `t` takes effect; `none`: the beam is past the last visible line. -/
def beamPos (m : Machine) (t : Nat) : Option Nat :=
  if t < borderOrigin m then some 0
  else
    let d := t - borderOrigin m
    let line := d / m.clocksLine
    let px := (d % m.clocksLine + 1) * 2
    let next := px - 2 ≥ 320
    let line := if next then line + 1 else line
    let px := if next then 0 else px
    if line ≥ 240 then none else some (line * 320 + px)

/-- colour of the last entry (in time order) whose beam position is ≤ `q`; `init` if none.
`init = none` (nothing was ever written) leaves the pixel unconstrained. -/
def colourAtPos (init : Option (BitVec 3)) (pws : List (Option Nat × BitVec 3)) (q : Nat) : Option (BitVec 3) :=
  pws.foldl (fun c w => match w.1 with
    | some p => if p ≤ q then some w.2 else c
    | none => c) init

/-- the writes of a frame `(frame clock, colour)` with their beam positions -/
def positions (m : Machine) (ws : List (Nat × BitVec 3)) : List (Option Nat × BitVec 3) :=
  ws.map fun w => (beamPos m w.1, w.2)

/-- colour pixel `q` shows according to the property, with zero tolerance -/
def colourAt (m : Machine) (init : Option (BitVec 3)) (ws : List (Nat × BitVec 3)) (q : Nat) : Option (BitVec 3) :=
  colourAtPos init (positions m ws) q

/-- colours pixel `q` may show: the exact one at any position within 16 px on the same line -/
def allowedAtPos (init : Option (BitVec 3)) (pws : List (Option Nat × BitVec 3)) (q : Nat) (col : BitVec 3) : Bool :=
  let line := q / 320
  let x := q % 320
  (List.range 33).any fun d =>
    let x' := x + d
    16 ≤ x' && x' - 16 < 320 &&
      (match colourAtPos init pws (line * 320 + (x' - 16)) with
       | some c => c == col
       | none => true)

def allowedAt (m : Machine) (init : Option (BitVec 3)) (ws : List (Nat × BitVec 3)) (q : Nat) (col : BitVec 3) : Bool :=
  allowedAtPos init (positions m ws) q col

/-- colour the host is told (`border_color()`): low three bits of the last ULA write, or the
border of the last loaded snapshot, whichever came last; `none` before any of them -/
def reportedColour (hist : List (BitVec 8)) : Option (BitVec 3) :=
  hist.getLast?.map fun v => (v &&& 7).setWidth 3

end ZxVerif.Video.Spec
