/-
Spec for C20 (DESIGN Appendix E "C20 schedule"), in the property's own words:
  spf = ⌊rate / playerFrequency⌋; before output sample k·spf the 14 registers of frame k are
  written in order 0..13, register 13 skipped when its value is 0xFF; output ends after
  frames·spf samples per channel; a stereo buffer of length n takes ⌊n/2⌋ sample pairs;
  decoding turns register-major data into frame-major data: out[i·14+r] = in[r·n+i].
Index-based (no playback cursor), executable: the driver evaluates it to adjudicate.
-/
import ZxVerif.Model.Vtx
namespace ZxVerif.Vtx.Spec
open ZxVerif.Vtx

/-- complete frames in a register log -/
def frames (data : List (BitVec 8)) : Nat := data.length / 14

/-- value of register `r` in frame `k` -/
def reg (data : List (BitVec 8)) (k r : Nat) : BitVec 8 := data.getD (k * 14 + r) 0

/-- Register writes of frame `k`: registers 0..13 in order; R13 is left untouched when the log
says 0xFF. -/
def frameWrites (data : List (BitVec 8)) (k : Nat) : List Call :=
  (List.range 14).filterMap fun r =>
    if r = 13 ∧ reg data k 13 = 0xFF then none
    else some (.write (BitVec.ofNat 8 r) (reg data k r))

/-- samples per channel before the end is reported -/
def totalSamples (data : List (BitVec 8)) (spf : Nat) : Nat := frames data * spf

/-- Backend calls caused by output sample `j` (per channel): on the first sample of a frame the
frame's register writes, then one `next_sample`; nothing after the last frame. -/
def callsAt (data : List (BitVec 8)) (spf j : Nat) : List Call :=
  if j < totalSamples data spf then
    (if j % spf = 0 then frameWrites data (j / spf) else []) ++ [Call.sample]
  else []

/-- Backend calls for output samples `start .. start+n-1`. -/
def schedule (data : List (BitVec 8)) (spf start n : Nat) : List Call :=
  (List.range' start n).flatMap (callsAt data spf)

/-- samples per channel delivered for output positions `start .. start+n-1` -/
def delivered (data : List (BitVec 8)) (spf start n : Nat) : Nat :=
  min (start + n) (totalSamples data spf) - min start (totalSamples data spf)

/-- Frame-major order of a register-major block of `n` frames: `out[i·14+r] = in[r·n+i]`. -/
def transposed (n : Nat) (t : List (BitVec 8)) : List (BitVec 8) :=
  (List.range n).flatMap fun i => (List.range 14).map fun r => t.getD (r * n + i) 0

end ZxVerif.Vtx.Spec
