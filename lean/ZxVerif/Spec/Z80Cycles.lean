/-
Spec for C03: the documented machine cycles of every Z80 instruction, as data.

`docMain / docED / docCB / docIdxCB` give, for an instruction about to execute (its opcode bytes
already fetched: `s.pc` points behind the last opcode byte, `s.ir` already counts the fetches), the
sequence of bus cycles the Zilog manual / the well-known Spectrum contention tables list for it,
in chronological order, with every address resolved in the pre-execution state `s` and memory `m`:

  `m a 3` + `r a`   3-T memory read at `a`          `m a 3` + `w a`   3-T memory write at `a`
  `m a 4` + `r a`   4-T opcode fetch at `a`         `n a 1`           one delay T-state carrying `a`
  `i k`             `k` internal T-states            `io p`            4-T port cycle at port `p`

The timing variants (condition true/false, B = 1, BC = 1, A = (HL)) are decided by the documented
conditions on the pre-state. `docT…` are the documented T-state totals (4/7/10/11/13/…).
Nothing here mentions the model's `exec`: `Props/C03.lean` proves that the model's bus log has
exactly this shape for every state and memory.
-/
import ZxVerif.Model.Z80.Exec
set_option linter.constructorNameAsVariable false
namespace ZxVerif.Z80.Spec

/-- a bus cycle as the machine sees it (no data values) -/
inductive Cyc
  | m (a : BitVec 16) (clk : Nat)
  | r (a : BitVec 16)
  | w (a : BitVec 16)
  | n (a : BitVec 16) (clk : Nat)
  | i (clk : Nat)
  | io (p : BitVec 16)
  deriving DecidableEq, Repr, Inhabited

def Cyc.t : Cyc → Nat
  | .m _ c | .n _ c | .i c => c
  | .io _ => 4
  | _ => 0

/-- T-states of a cycle list -/
def tsum (cs : List Cyc) : Nat := (cs.map Cyc.t).sum

def fetch4 (a : BitVec 16) : List Cyc := [.m a 4, .r a]
def rd3 (a : BitVec 16) : List Cyc := [.m a 3, .r a]
def wr3 (a : BitVec 16) : List Cyc := [.m a 3, .w a]
def idle (a : BitVec 16) (k : Nat) : List Cyc := List.replicate k (.n a 1)

abbrev Mem := BitVec 16 → BitVec 8

/-- the 16-bit immediate at PC -/
def imm16 (s : Cpu) (m : Mem) : BitVec 16 := mk16 (m (s.pc + 1)) (m s.pc)

/-- address of the `(HL)` / `(IX+d)` / `(IY+d)` operand -/
def opAddr (p : Pfx) (s : Cpu) (m : Mem) : BitVec 16 :=
  match p with
  | .none => s.hl
  | _ => s.idx p + sext (m s.pc)

/-- cycles that form that address: none for (HL); displacement read + five delay T-states at PC -/
def opCycles (p : Pfx) (s : Cpu) : List Cyc :=
  match p with
  | .none => []
  | _ => rd3 s.pc ++ idle s.pc 5

def pushCycles (s : Cpu) : List Cyc := wr3 (s.sp - 1) ++ wr3 (s.sp - 2)
def popCycles (s : Cpu) : List Cyc := rd3 s.sp ++ rd3 (s.sp + 1)

/-- the documented condition that selects the long timing variant of the main page -/
def takenMain (i : Instr) (s : Cpu) : Bool :=
  match i with
  | .djnz => s.b - 1 != 0
  | .jrcc c | .retcc c | .callcc c => c.eval s.f
  | _ => true

/-- unprefixed / DD / FD page, after the opcode fetch(es) -/
def docMain (p : Pfx) (i : Instr) (s : Cpu) (m : Mem) : List Cyc :=
  match i with
  | .djnz => idle s.ir 1 ++ rd3 s.pc ++ (if takenMain i s then idle s.pc 5 else [])
  | .jr => rd3 s.pc ++ idle s.pc 5
  | .jrcc _ => rd3 s.pc ++ (if takenMain i s then idle s.pc 5 else [])
  | .ldRpNN _ => rd3 s.pc ++ rd3 (s.pc + 1)
  | .addHL _ => idle s.ir 7
  | .ldBCA => wr3 s.bc
  | .ldDEA => wr3 s.de
  | .ldNNHL => rd3 s.pc ++ rd3 (s.pc + 1) ++ wr3 (imm16 s m) ++ wr3 (imm16 s m + 1)
  | .ldNNA => rd3 s.pc ++ rd3 (s.pc + 1) ++ wr3 (imm16 s m)
  | .ldABC => rd3 s.bc
  | .ldADE => rd3 s.de
  | .ldHLNN => rd3 s.pc ++ rd3 (s.pc + 1) ++ rd3 (imm16 s m) ++ rd3 (imm16 s m + 1)
  | .ldANN => rd3 s.pc ++ rd3 (s.pc + 1) ++ rd3 (imm16 s m)
  | .incRp _ | .decRp _ => idle s.ir 2
  | .inc r | .dec r =>
    match r with
    | .m => opCycles p s ++ rd3 (opAddr p s m) ++ [.n (opAddr p s m) 1] ++ wr3 (opAddr p s m)
    | _ => []
  | .ldRN r =>
    match r with
    | .m =>
      match p with
      | .none => rd3 s.pc ++ wr3 s.hl
      | _ => rd3 s.pc ++ rd3 (s.pc + 1) ++ idle (s.pc + 1) 2 ++ wr3 (opAddr p s m)
    | _ => rd3 s.pc
  | .ld d src =>
    match d, src with
    | .m, _ => opCycles p s ++ wr3 (opAddr p s m)
    | _, .m => opCycles p s ++ rd3 (opAddr p s m)
    | _, _ => []
  | .alu _ r =>
    match r with
    | .m => opCycles p s ++ rd3 (opAddr p s m)
    | _ => []
  | .retcc _ => idle s.ir 1 ++ (if takenMain i s then popCycles s else [])
  | .pop _ | .ret => popCycles s
  | .ldSPHL => idle s.ir 2
  | .jpcc _ | .jp => rd3 s.pc ++ rd3 (s.pc + 1)
  | .outNA | .inAN => rd3 s.pc ++ [.io (mk16 s.a (m s.pc))]
  | .exSPHL =>
    rd3 s.sp ++ rd3 (s.sp + 1) ++ [.n (s.sp + 1) 1] ++ wr3 (s.sp + 1) ++ wr3 s.sp ++ idle s.sp 2
  | .callcc _ =>
    rd3 s.pc ++ rd3 (s.pc + 1) ++ (if takenMain i s then [.n (s.pc + 1) 1] ++ pushCycles s else [])
  | .call => rd3 s.pc ++ rd3 (s.pc + 1) ++ [.n (s.pc + 1) 1] ++ pushCycles s
  | .push _ | .rst _ => idle s.ir 1 ++ pushCycles s
  | .aluN _ => rd3 s.pc
  | _ => []

/-- documented T-states of the main page including the 4-T opcode fetch (add 4 for a DD/FD prefix) -/
def docTMain (p : Pfx) (i : Instr) (taken : Bool) : Nat :=
  let idx : Bool := p != .none
  match i with
  | .djnz => if taken then 13 else 8
  | .jr => 12
  | .jrcc _ => if taken then 12 else 7
  | .ldRpNN _ => 10
  | .addHL _ => 11
  | .ldBCA | .ldDEA | .ldABC | .ldADE => 7
  | .ldNNHL | .ldHLNN => 16
  | .ldNNA | .ldANN => 13
  | .incRp _ | .decRp _ | .ldSPHL => 6
  | .inc r | .dec r => match r with | .m => if idx then 19 else 11 | _ => 4
  | .ldRN r => match r with | .m => if idx then 15 else 10 | _ => 7
  | .ld d src =>
    match d, src with
    | .m, _ => if idx then 15 else 7
    | _, .m => if idx then 15 else 7
    | _, _ => 4
  | .alu _ r => match r with | .m => if idx then 15 else 7 | _ => 4
  | .retcc _ => if taken then 11 else 5
  | .pop _ | .ret => 10
  | .jpcc _ | .jp => 10
  | .outNA | .inAN => 11
  | .exSPHL => 19
  | .callcc _ => if taken then 17 else 10
  | .call => 17
  | .push _ | .rst _ => 11
  | .aluN _ => 7
  | _ => 4

/-- repeat condition of the block instructions (documented): counter not exhausted, and for CPIR/CPDR
no match -/
def repeats (i : EdInstr) (s : Cpu) (m : Mem) : Bool :=
  match i with
  | .ldBlock _ rep => rep && s.bc - 1 != 0
  | .cpBlock _ rep => rep && s.bc - 1 != 0 && s.a != m s.hl
  | .inBlock _ rep | .outBlock _ rep => rep && s.b - 1 != 0
  | _ => false

/-- ED page, after the two opcode fetches -/
def docED (i : EdInstr) (s : Cpu) (m : Mem) : List Cyc :=
  match i with
  | .inC _ | .outC _ => [.io s.bc]
  | .sbcHL _ | .adcHL _ => idle s.ir 7
  | .ldNNRp _ => rd3 s.pc ++ rd3 (s.pc + 1) ++ wr3 (imm16 s m) ++ wr3 (imm16 s m + 1)
  | .ldRpNN _ => rd3 s.pc ++ rd3 (s.pc + 1) ++ rd3 (imm16 s m) ++ rd3 (imm16 s m + 1)
  | .retn _ => popCycles s
  | .ldIA | .ldRA | .ldAI | .ldAR => idle s.ir 1
  | .rrd | .rld => rd3 s.hl ++ idle s.hl 4 ++ wr3 s.hl
  | .ldBlock _ _ => rd3 s.hl ++ wr3 s.de ++ idle s.de 2 ++ (if repeats i s m then idle s.de 5 else [])
  | .cpBlock _ _ => rd3 s.hl ++ idle s.hl 5 ++ (if repeats i s m then idle s.hl 5 else [])
  | .inBlock _ _ =>
    idle s.ir 1 ++ [.io s.bc] ++ wr3 s.hl ++ (if repeats i s m then idle s.hl 5 else [])
  | .outBlock _ _ =>
    idle s.ir 1 ++ rd3 s.hl ++ [.io (mk16 (s.b - 1) s.c)] ++
      (if repeats i s m then idle (mk16 (s.b - 1) s.c) 5 else [])
  | _ => []

/-- documented T-states of the ED page including both opcode fetches -/
def docTED (i : EdInstr) (rep : Bool) : Nat :=
  match i with
  | .inC _ | .outC _ => 12
  | .sbcHL _ | .adcHL _ => 15
  | .ldNNRp _ | .ldRpNN _ => 20
  | .retn _ => 14
  | .ldIA | .ldRA | .ldAI | .ldAR => 9
  | .rrd | .rld => 18
  | .ldBlock _ _ | .cpBlock _ _ | .inBlock _ _ | .outBlock _ _ => if rep then 21 else 16
  | _ => 8

/-- CB page after the prefix fetch: the opcode fetch, then nothing (register) or read, one delay
T-state and — except for BIT — the write back at HL -/
def docCB (s : Cpu) (m : Mem) : List Cyc :=
  let i := decodeCB (m s.pc)
  fetch4 s.pc ++
    match i.reg with
    | .m => rd3 s.hl ++ [.n s.hl 1] ++ (match i with | .bit _ _ => [] | _ => wr3 s.hl)
    | _ => []

def docTCB (i : CbInstr) : Nat :=
  match i.reg with
  | .m => (match i with | .bit _ _ => 12 | _ => 15)
  | _ => 8

/-- DDCB/FDCB after the two prefix fetches: displacement (3 T), opcode read (3 T) + two delay T-states
at its address, then read, delay, and — except for BIT — write at IX/IY+d -/
def docIdxCB (p : Pfx) (s : Cpu) (m : Mem) : List Cyc :=
  let a := s.idx p + sext (m s.pc)
  rd3 s.pc ++ rd3 (s.pc + 1) ++ idle (s.pc + 1) 2 ++ rd3 a ++ [.n a 1] ++
    (match decodeCB (m (s.pc + 1)) with | .bit _ _ => [] | _ => wr3 a)

def docTIdxCB (i : CbInstr) : Nat := match i with | .bit _ _ => 20 | _ => 23

/-- interrupt acknowledge, IM 0/1: two stack writes and seven internal T-states (13 in all) -/
def docInt01 (s : Cpu) : List Cyc := pushCycles s ++ [.i 7]
/-- IM 2: two stack writes, the two vector reads, seven internal T-states (19) -/
def docInt2 (s : Cpu) (vec : BitVec 16) : List Cyc := pushCycles s ++ rd3 vec ++ rd3 (vec + 1) ++ [.i 7]
/-- NMI: five delay T-states at the return address, two stack writes (11) -/
def docNmi (s : Cpu) (ret : BitVec 16) : List Cyc := idle ret 5 ++ pushCycles s

end ZxVerif.Z80.Spec
