/-
Spec for C02, in the property's own words: when a maskable interrupt may be accepted, which address
is pushed, where execution continues. Executable (the harness evaluates the same predicates on the
real code's observations, harness/src/c02.rs `predicates`).
-/
import ZxVerif.Model.Z80.Basic
namespace ZxVerif.Z80.Spec

/-- "a maskable interrupt is accepted only at an instruction boundary with IFF1 set, never directly
after EI or DI (`skipInt`) and never between a DD/FD prefix and the opcode it modifies" -/
def mayAcceptInt (s : Cpu) : Bool := s.iff1 && !s.skipInt && s.activePrefix == .none

/-- an NMI is not maskable, but it too waits for the end of a prefix chain -/
def mayAcceptNmi (s : Cpu) : Bool := s.activePrefix == .none

/-- "pushes the address of the next instruction to execute": behind the HALT if the CPU was halted -/
def returnAddress (s : Cpu) : BitVec 16 := if s.halted then s.pc + 1 else s.pc

/-- "continues at 0x0038 (IM 0/1), at the word read from I*256+bus byte (IM 2)"; `vec` is that word -/
def intTarget (s : Cpu) (vec : BitVec 16) : BitVec 16 := if s.im = 2 then vec else 0x0038

def nmiTarget : BitVec 16 := 0x0066

end ZxVerif.Z80.Spec
