/-
Spec for C03/C04 on the composed machine: the *timed* view of the documented machine cycles.

The machine (Model/Spectrum.lean) keeps a ghost log of the operations that cost time, each with the
paging latch (port 0x7FFD) in force when it started. `timedOf` says what the documented cycles of an
instruction (Spec/Z80Cycles.lean) look like in that log:

  4-T opcode fetch at `a`   `.m a 4`  ↦  `.mem a 4`        3-T read / write at `a`   `.m a 3`  ↦  `.mem a 3`
  delay T-state carrying `a` `.n a 1` ↦  `.mem a 1`        `k` address-less T-states  `.i k`    ↦  `.plain k`
  4-T port cycle at `p`      `.io p`  ↦  `.io p`           data transfers `.r a`/`.w a` take no time: dropped

Every operation carries the latch `l0` in force at the start of the instruction, except those that
follow a port cycle (only a port *write* can move the latch; the only documented cycles that follow one
are the five repeat T-states of OTIR/OTDR): they carry `l1`, the latch after the instruction.
Core Lean only.
-/
import ZxVerif.Spec.Z80Cycles
import ZxVerif.Model.Spectrum
set_option linter.constructorNameAsVariable false
namespace ZxVerif.Spectrum
open ZxVerif.Z80
open ZxVerif.Z80.Spec (Cyc)

/-- the timed operations of a documented cycle list, oldest first; `l0` = paging latch before the
first port cycle, `l1` = after it -/
def timedOf (l0 l1 : BitVec 8) : List Cyc → List (BitVec 8 × TOp)
  | [] => []
  | .m a c :: r => (l0, .mem a c) :: timedOf l0 l1 r
  | .n a c :: r => (l0, .mem a c) :: timedOf l0 l1 r
  | .i c :: r => (l0, .plain c) :: timedOf l0 l1 r
  | .io p :: r => (l0, .io p) :: timedOf l1 l1 r
  | .r _ :: r => timedOf l0 l1 r
  | .w _ :: r => timedOf l0 l1 r

/-- the memory the CPU sees (through the current paging) -/
def ZX.cpuMem (z : ZX) : Spec.Mem := fun a => z.ctl.readInternal a

/-- The CPU state in which an instruction body runs after ONE opcode-byte fetch of an `emulate` that
accepted no interrupt: `skip_interrupt` and a parked prefix are consumed, R has counted the fetch, PC
points behind the byte, the Q latch has stepped. -/
def body1 (s : Cpu) : Cpu :=
  stepQ { s with skipInt := false, activePrefix := .none, r := incR s.r, pc := s.pc + 1 }

/-- … after TWO opcode-byte fetches (DD/FD/ED prefix and opcode in the same `emulate`) -/
def body2 (s : Cpu) : Cpu :=
  stepQ { s with skipInt := false, activePrefix := .none, r := incR (incR s.r), pc := s.pc + 1 + 1 }

/-- the byte of an index prefix -/
def pfxByte : Pfx → BitVec 8
  | .dd => 0xDD | .fd => 0xFD | .none => 0x00

/-- the parked form of an index prefix (`active_prefix` between two `emulate` calls) -/
def parked : Pfx → APfx
  | .dd => .dd | .fd => .fd | .none => .none

end ZxVerif.Spectrum
