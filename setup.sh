#!/bin/sh
# Builds the framework from files on disk only (offline): Lean models/theorems/driver and the Rust harness.
set -e
cd "$(dirname "$0")"
export CARGO_NET_OFFLINE=true
mkdir -p .cache evidence replays
./check --link
(cd lean && lake build)
(cd harness && cargo build --release --offline)
echo "setup done"
