#!/usr/bin/env python3
"""
Constant extractor (the secondary, textual tie between /repo and the Lean theorems).

Re-reads lookup tables and timing constants from the Rust sources of the tree under test and
writes them as Lean definitions into lean/ZxVerif/Extracted/*.lean. Theorems in
lean/ZxVerif/Props/*X.lean then state "extracted constant = the model's constant" and are
re-checked on every run against what the code says *now*.

A table that cannot be located (renamed, restructured) is skipped: the committed copy of the
generated file is kept, the skip is reported on stdout as `SKIP <name>: <why>` and recorded in the
evidence; it is never reported as a violation (the behavioural correspondence still covers it).

The exceptions are the tables that *translate code* rather than read constants: `Ports` (the decode
chains of read_io / write_io, branch by branch), `SnaLayout` (sna.rs: every header store of `save`,
every setter of `load` with the header bytes it is fed, the pieces written / read after the header),
`SzxLayout` (szx.rs: magic, machine ids, chunk dispatch, every chunk byte a `process_*_block`
function uses), `VideoConsts` and `MixerConsts` (address, geometry, level and queue expressions,
statement by statement), `Paging` (memory.rs: reset maps, slot arithmetic, what `read` / `write` /
`remap` do per page kind; controller.rs: `write_7ffd`, `restore_7ffd` as state transformers),
`FrameClock` (controller.rs: `wait_internal`, `new_frame`, `int_active`, the frame counter),
`VtxLayout` (vtx/src/lib.rs, player.rs: header reads, un-transposition index, samples per frame, R13
rule, write order, cursor arithmetic of `play`), `FastLoad` (fastload/tap.rs: `fast_load_tap`,
prologue, loop iteration and write-back, statement by statement), `TapeMachine` (tape/tap.rs: `enum TapeState`,
`play` / `stop` / `rewind`, the guard and countdown of `process_clocks` and every arm of its state machine as state
transformers), `InputHandlers` (controller.rs: `send_key`, `send_sinclair_key`, `send_compound_key`,
`send_mouse_*`, the half-row scan of `read_io`; joy/kempston.rs, mouse/kempston.rs, the `send_*` entry points of
emulator/mod.rs), `AyDispatch` (aym precise.rs: `write_register` and the setters; sound/ay.rs:
`ZXAyChip::select_reg/write/read`) and `HostLoop` (emulator/mod.rs: `emulate_frames` as ordered lists of
classified statements with their tests, `have_sound`, `set_speed`). When the construct is found but a branch / a store / a byte read / an
expression cannot be translated faithfully the extractor must not drop it silently. It prints
`FAIL <table>: <file>:<line>: <why>`, writes a generated file that does not build (carrying the same
message) and exits with status 1. A function that is not found at all (renamed, moved) is still a `SKIP`.

usage: extract.py <repo-root> <out-dir> [tables]   prints one line per table: OK/SKIP/CHANGED/FAIL
"""
import os
import re
import sys


def read(repo, rel):
    with open(os.path.join(repo, rel)) as f:
        return f.read()


def strip_comments(s):
    s = re.sub(r"/\*.*?\*/", "", s, flags=re.S)
    return re.sub(r"//.*", "", s)


def num(s):
    return int(s.replace("_", ""), 0)


class Skip(Exception):
    pass


class Fail(Exception):
    """the construct was located but cannot be translated faithfully: reported loudly, never dropped"""


def machine(repo):
    src = strip_comments(read(repo, "rustzx-core/src/zx/machine/mod.rs"))
    out = []
    for name, lean in (("SPECS_48K", "k48"), ("SPECS_128K", "k128")):
        m = re.search(r"static\s+ref\s+%s\s*:\s*ZXSpecs\s*=\s*\{(.*?)\.build\(\)" % name, src, flags=re.S)
        if not m:
            raise Skip("%s builder chain not found" % name)
        body = m.group(1)

        def call(fn, n):
            mm = re.search(r"\.%s\(\s*([^)]*?)\s*\)" % fn, body, flags=re.S)
            if not mm:
                raise Skip("%s.%s(..) not found" % (name, fn))
            args = [a.strip() for a in re.sub(r"[\[\]]", " ", mm.group(1)).replace(",", " ").split()]
            if len(args) != n:
                raise Skip("%s.%s has %d args, expected %d" % (name, fn, len(args), n))
            return [num(a) for a in args]
        first = call("clocks_first_pixel", 1)[0]
        row = call("clocks_row", 4)
        lines = call("lines", 4)
        cont = call("contention", 9)
        intl = call("interrupt_length", 1)[0]
        out.append((lean, first, row, lines, cont[:8], cont[8], intl))
    # the derived quantities exactly as ZXSpecsBuilder computes them (specs.rs)
    specs = strip_comments(read(repo, "rustzx-core/src/zx/machine/specs.rs"))
    if not re.search(r"clocks_line\s*=\s*lborder\s*\+\s*screen\s*\+\s*rborder\s*\+\s*retrace", specs):
        raise Skip("clocks_line derivation changed in specs.rs")
    if not re.search(r"lines_all\s*=\s*tborder\s*\+\s*screen\s*\+\s*bborder", specs):
        raise Skip("lines_all derivation changed in specs.rs")
    if not re.search(r"clocks_frame\s*=\s*\(\s*self\.specs\.lines_all\s*\+\s*self\.specs\.lines_vsync\s*\)\s*\*\s*self\.specs\.clocks_line", specs):
        raise Skip("clocks_frame derivation changed in specs.rs")
    t = ["/- GENERATED by tools/extract.py from rustzx-core/src/zx/machine/{mod.rs,specs.rs}. Do not edit. -/",
         "import ZxVerif.Model.Machine", "namespace ZxVerif.Extracted", "open ZxVerif.Machine", ""]
    for lean, first, row, lines, pat, off, intl in out:
        line = sum(row)
        frame = (lines[0] + lines[1] + lines[2] + lines[3]) * line
        t.append("def specs_%s : Specs :=" % lean)
        t.append("  { clocksFirstPixel := %d, clocksLine := %d, clocksScreenRow := %d, linesScreen := %d," % (first, line, row[1], lines[1]))
        t.append("    clocksFrame := %d, interruptLength := %d, pattern := [%s] }" % (frame, intl, ", ".join(map(str, pat))))
        t.append("def contentionOffset_%s : Nat := %d" % (lean, off))
        t.append("")
    t.append("end ZxVerif.Extracted")
    return "\n".join(t) + "\n"


def contention_fn(repo):
    """the literal structure of contention_clocks / bank_is_contended: only sanity markers"""
    src = strip_comments(read(repo, "rustzx-core/src/zx/machine/mod.rs"))
    m = re.search(r"let\s+contended_pages\s*=\s*\[([^\]]*)\]", src)
    if not m:
        raise Skip("contended_pages array not found")
    pages = [num(x) for x in m.group(1).replace(",", " ").split()]
    m48 = re.search(r"ZXMachine::Sinclair48K\s*=>\s*page\s*==\s*(\d+)", src)
    if not m48:
        raise Skip("48K contended page test not found")
    t = ["/- GENERATED by tools/extract.py from rustzx-core/src/zx/machine/mod.rs (bank_is_contended). Do not edit. -/",
         "namespace ZxVerif.Extracted", "",
         "def contendedPages128 : List Nat := [%s]" % ", ".join(map(str, pages)),
         "def contendedPage48 : Nat := %s" % m48.group(1), "", "end ZxVerif.Extracted"]
    return "\n".join(t) + "\n"


KEYS = ["Shift", "Z", "X", "C", "V", "A", "S", "D", "F", "G", "Q", "W", "E", "R", "T", "N1", "N2", "N3", "N4", "N5",
        "N0", "N9", "N8", "N7", "N6", "P", "O", "I", "U", "Y", "Enter", "L", "K", "J", "H", "Space", "SymShift", "M", "N", "B"]
LEAN_KEY = {k: (k[0].lower() + k[1:]) for k in KEYS}


def match_arms(body):
    """'A | B | C => 0x01,' arms -> {name: value}"""
    res = {}
    for pats, val in re.findall(r"((?:\w+\s*\|\s*)*\w+)\s*=>\s*(0x[0-9A-Fa-f]+|\d+)\s*,", body):
        for p in pats.split("|"):
            res[p.strip()] = num(val)
    return res


def keys(repo):
    src = strip_comments(read(repo, "rustzx-core/src/zx/keys.rs"))
    m = re.search(r"fn\s+mask\s*\(&self\)\s*->\s*u8\s*\{(.*?)\n    \}", src, flags=re.S)
    h = re.search(r"fn\s+half_port\s*\(self\)\s*->\s*u8\s*\{(.*?)\n    \}", src, flags=re.S)
    r = re.search(r"fn\s+row_id\s*\(self\)\s*->\s*usize\s*\{(.*?)\n    \}", src, flags=re.S)
    if not (m and h and r):
        raise Skip("ZXKey::mask/half_port/row_id not found")
    masks = match_arms(m.group(1))
    ports = match_arms(h.group(1))
    rows = {num(a): num(b) for a, b in re.findall(r"(0x[0-9A-Fa-f]+)\s*=>\s*(\d+)\s*,", r.group(1))}
    for k in KEYS:
        if k not in masks or k not in ports or ports[k] not in rows:
            raise Skip("key %s missing from a table" % k)
    prim = re.search(r"fn\s+primary_key\s*\(self\)\s*->\s*ZXKey\s*\{(.*?)\n    \}", src, flags=re.S)
    mm = re.search(r"fn\s+modifier_mask\s*\(self\)\s*->\s*u32\s*\{(.*?)\n    \}", src, flags=re.S)
    if not (prim and mm):
        raise Skip("CompoundKey tables not found")
    comp = ["ArrowLeft", "ArrowRight", "ArrowUp", "ArrowDown", "CapsLock", "Delete", "Break"]
    lean_comp = {"ArrowLeft": "arrowLeft", "ArrowRight": "arrowRight", "ArrowUp": "arrowUp", "ArrowDown": "arrowDown",
                 "CapsLock": "capsLock", "Delete": "delete", "Break": "break_"}
    prims = dict(re.findall(r"CompoundKey::(\w+)\s*=>\s*ZXKey::(\w+)", prim.group(1)))
    mods = {a: num(b) for a, b in re.findall(r"CompoundKey::(\w+)\s*=>\s*(0x[0-9A-Fa-f]+)", mm.group(1))}
    for c in comp:
        if c not in prims or c not in mods:
            raise Skip("compound key %s missing" % c)
    t = ["/- GENERATED by tools/extract.py from rustzx-core/src/zx/keys.rs. Do not edit. -/",
         "import ZxVerif.Model.Input", "set_option linter.constructorNameAsVariable false",
         "namespace ZxVerif.Extracted", "open ZxVerif.Input", "",
         "def keyMask : ZXKey → BitVec 8"]
    for k in KEYS:
        t.append("  | .%s => 0x%02X" % (LEAN_KEY[k], masks[k]))
    t.append("")
    t.append("def keyRow : ZXKey → Nat")
    for k in KEYS:
        t.append("  | .%s => %d" % (LEAN_KEY[k], rows[ports[k]]))
    t.append("")
    t.append("def compoundPrimary : CompoundKey → ZXKey")
    for c in comp:
        t.append("  | .%s => .%s" % (lean_comp[c], LEAN_KEY[prims[c]]))
    t.append("")
    t.append("def compoundMask : CompoundKey → BitVec 32")
    for c in comp:
        t.append("  | .%s => 0x%02X" % (lean_comp[c], mods[c]))
    t += ["", "end ZxVerif.Extracted"]
    return "\n".join(t) + "\n"


def sinclair(repo):
    src = strip_comments(read(repo, "rustzx-core/src/zx/joy/sinclair.rs"))
    arms = re.findall(r"\(\s*SinclairJoyNum::(\w+)\s*,\s*SinclairKey::(\w+)\s*\)\s*=>\s*ZXKey::(\w+)", src)
    if len(arms) != 10:
        raise Skip("expected 10 arms in sinclair_event_to_zx_key, found %d" % len(arms))
    jn = {"Fist": "first", "First": "first", "Second": "second"}
    t = ["/- GENERATED by tools/extract.py from rustzx-core/src/zx/joy/sinclair.rs. Do not edit. -/",
         "import ZxVerif.Model.Input", "set_option linter.constructorNameAsVariable false",
         "namespace ZxVerif.Extracted", "open ZxVerif.Input", "",
         "def sinclairMap : JoyNum → SinclairKey → ZXKey"]
    for j, k, z in arms:
        if j not in jn or z not in LEAN_KEY:
            raise Skip("unknown name in sinclair map: %s %s %s" % (j, k, z))
        t.append("  | .%s, .%s => .%s" % (jn[j], k.lower(), LEAN_KEY[z]))
    t += ["", "end ZxVerif.Extracted"]
    return "\n".join(t) + "\n"


def z80_tables(repo):
    src = read(repo, "rustzx-z80/src/tables/mod.rs")
    names = [("HALF_CARRY_ADD_TABLE", 8, "halfCarryAdd"), ("HALF_CARRY_SUB_TABLE", 8, "halfCarrySub"),
             ("OVERFLOW_ADD_TABLE", 8, "overflowAdd"), ("OVERFLOW_SUB_TABLE", 8, "overflowSub"),
             ("PARITY_TABLE", 256, "parity"), ("F3F5_TABLE", 256, "f3f5"), ("SZF3F5_TABLE", 256, "szf3f5"),
             ("SZPF3F5_TABLE", 256, "szpf3f5")]
    out = ["/-", "Flag lookup tables of rustzx-z80/src/tables/mod.rs, extracted by tools/extract.py (Z80Tables).",
           "Do not edit by hand.", "-/", "namespace ZxVerif.Z80.Extracted", ""]
    for name, n, lean in names:
        m = re.search(r"pub const %s: \[u8; %d\] = \[(.*?)\];" % (name, n), src, flags=re.S)
        if not m:
            raise Skip("%s not found" % name)
        vals = [int(x, 16) for x in re.findall(r"0x([0-9A-Fa-f]+)", m.group(1))]
        if len(vals) != n:
            raise Skip("%s has %d entries, expected %d" % (name, len(vals), n))
        out.append("def %s : List (BitVec 8) := [" % lean)
        for i in range(0, n, 16):
            out.append("  " + ", ".join("0x%02X" % v for v in vals[i:i + 16]) + ("," if i + 16 < n else ""))
        out.append("]")
        out.append("")
    out.append("end ZxVerif.Z80.Extracted")
    return "\n".join(out) + "\n"


def tape_consts(repo):
    src = strip_comments(read(repo, "rustzx-core/src/zx/tape/tap.rs"))
    names = ["PILOT_LENGTH", "PILOT_PULSES_HEADER", "PILOT_PULSES_DATA", "SYNC1_LENGTH", "SYNC2_LENGTH",
             "BIT_ONE_LENGTH", "BIT_ZERO_LENGTH", "PAUSE_LENGTH", "BUFFER_SIZE"]
    out = ["/-", "Timing constants of rustzx-core/src/zx/tape/tap.rs, extracted by tools/extract.py (TapeConsts).",
           "Do not edit by hand.", "-/", "namespace ZxVerif.Tape.Extracted", ""]
    for n in names:
        m = re.search(r"const %s: usize = ([0-9_xXa-fA-F]+);" % n, src)
        if not m:
            raise Skip("%s not found" % n)
        out.append("def %s : Nat := %d" % (n, num(m.group(1))))
    out += ["", "end ZxVerif.Tape.Extracted"]
    return "\n".join(out) + "\n"


def dec14(tok):
    """decimal literal -> integer number of 10^-14 units, exactly; Skip if it has more digits"""
    tok = tok.strip().replace("_", "")
    if not re.fullmatch(r"[0-9]+\.[0-9]*|[0-9]+", tok):
        raise Skip("unexpected DAC literal %r" % tok)
    ip, _, fp = tok.partition(".")
    if len(fp) > 14:
        raise Skip("DAC literal %r has more than 14 fractional digits" % tok)
    return int(ip) * 10 ** 14 + int((fp + "0" * 14)[:14] or "0")


def ay_tables(repo):
    src = strip_comments(read(repo, "aym/src/backends/precise.rs"))
    out = ["/-", "Tables of aym/src/backends/precise.rs, extracted by tools/extract.py (AyTables): the DAC tables",
           "scaled by 10^14 and the envelope shape tables. Do not edit by hand.", "-/",
           "namespace ZxVerif.Ay.Extracted", ""]
    for name, lean in (("AY_DAC_TABLE", "dacAY"), ("YM_DAC_TABLE", "dacYM")):
        m = re.search(r"const %s: \[f64; 32\] = \[(.*?)\];" % name, src, flags=re.S)
        if not m:
            raise Skip("%s not found" % name)
        vals = [dec14(t) for t in m.group(1).split(",") if t.strip()]
        if len(vals) != 32:
            raise Skip("%s has %d entries" % (name, len(vals)))
        out.append("def %s : List Nat := [%s]" % (lean, ", ".join(str(v) for v in vals)))
    m = re.search(r"static ENVELOPES: \[\[fn\(&mut AymPrecise\); 2\]; 16\] = \[(.*?)\];", src, flags=re.S)
    if not m:
        raise Skip("ENVELOPES not found")
    rows = re.findall(r"\[\s*AymPrecise::(\w+)\s*,\s*AymPrecise::(\w+)\s*\]", m.group(1))
    fn = {"slide_down": 0, "slide_up": 1, "hold_top": 2, "hold_bottom": 3}
    if len(rows) != 16 or any(a not in fn or b not in fn for a, b in rows):
        raise Skip("ENVELOPES has an unexpected shape")
    out.append("/-- per shape: (function of segment 0, function of segment 1); 0 slide_down, 1 slide_up, 2 hold_top, 3 hold_bottom -/")
    out.append("def envelopes : List (Nat × Nat) := [%s]" % ", ".join("(%d, %d)" % (fn[a], fn[b]) for a, b in rows))
    m = re.search(r"static ENVELOPE_RESET_TO_MAX: \[\[bool; 2\]; 16\] = \[(.*?)\];", src, flags=re.S)
    if not m:
        raise Skip("ENVELOPE_RESET_TO_MAX not found")
    rows = re.findall(r"\[\s*(true|false)\s*,\s*(true|false)\s*\]", m.group(1))
    if len(rows) != 16:
        raise Skip("ENVELOPE_RESET_TO_MAX has %d rows" % len(rows))
    out.append("def resetToMax : List (Bool × Bool) := [%s]" % ", ".join("(%s, %s)" % (a, b) for a, b in rows))
    out += ["", "end ZxVerif.Ay.Extracted"]
    return "\n".join(out) + "\n"


# ---------------------------------------------------------------------------------------------------
# Ports: the if / else-if chains of read_io and write_io, translated branch by branch (C07)
# ---------------------------------------------------------------------------------------------------

CONTROLLER = "rustzx-core/src/zx/controller.rs"


def blank_comments(s, keep_strings=False):
    """comments, string and char literals overwritten with spaces; every offset and newline survives
    (`keep_strings`: string and char literals are skipped over but left readable)"""
    out = list(s)
    i, n = 0, len(s)

    def blank(a, b):
        for k in range(a, b):
            if out[k] != "\n":
                out[k] = " "
    while i < n:
        c = s[i]
        if s.startswith("//", i):
            j = s.find("\n", i)
            j = n if j < 0 else j
            blank(i, j)
            i = j
        elif s.startswith("/*", i):
            depth, j = 1, i + 2
            while j < n and depth:
                if s.startswith("/*", j):
                    depth, j = depth + 1, j + 2
                elif s.startswith("*/", j):
                    depth, j = depth - 1, j + 2
                else:
                    j += 1
            blank(i, j)
            i = j
        elif c == '"':
            j = i + 1
            while j < n and s[j] != '"':
                j += 2 if s[j] == "\\" else 1
            if not keep_strings:
                blank(i + 1, min(j, n))
            i = j + 1
        elif c == "'":
            m = re.match(r"'(\\.[^']*|[^\\'])'", s[i:])
            if m:  # a char literal (a lifetime has no closing quote)
                if not keep_strings:
                    blank(i + 1, i + m.end() - 1)
                i += m.end()
            else:
                i += 1
        else:
            i += 1
    return "".join(out)


def _ident(ch):
    return ch.isalnum() or ch == "_"


def _word_at(s, i, w):
    return s.startswith(w, i) and (i == 0 or not _ident(s[i - 1])) and (i + len(w) >= len(s) or not _ident(s[i + len(w)]))


def _match(s, i):
    """offset of the bracket closing the one at s[i]"""
    pairs = {"(": ")", "[": "]", "{": "}"}
    stack = []
    for k in range(i, len(s)):
        c = s[k]
        if c in pairs:
            stack.append(pairs[c])
        elif c in ")]}":
            if not stack or stack.pop() != c:
                raise ValueError("unbalanced brackets")
            if not stack:
                return k
    raise ValueError("unbalanced brackets")


def _squash(t):
    return re.sub(r"\s+", "", t)


def _strip_parens(t):
    while t.startswith("(") and _match(t, 0) == len(t) - 1:
        t = t[1:-1]
    return t


def _split_and(t):
    """split a whitespace-free condition on `&&` outside brackets"""
    parts, depth, start, k = [], 0, 0, 0
    while k < len(t):
        c = t[k]
        if c in "([{":
            depth += 1
        elif c in ")]}":
            depth -= 1
        elif depth == 0 and t.startswith("&&", k):
            parts.append(t[start:k])
            start = k + 2
            k += 1
        k += 1
    parts.append(t[start:])
    return parts


_LIT = r"(0x[0-9A-Fa-f_]+|[0-9][0-9_]*)"
_MASK_TEST = re.compile(r"^\(?port&%s\)?==%s$" % (_LIT, _LIT))
_GUARD_ATOMS = {"self.mouse.is_some()": "mouse", "self.kempston.is_some()": "kempston",
                "self.machine==ZXMachine::Sinclair128K": "is128k", "ZXMachine::Sinclair128K==self.machine": "is128k"}
_EXT_READ_DEF = re.compile(r"^self\.io_extender\.as_mut\(\)\.and_then\(\|(\w+)\|\1\.extends_port\(port\)"
                           r"\.then\(\|\|\1\.read\(port\)\)\)$")
_EXT_WRITE_COND = re.compile(r"^self\.io_extender\.as_ref\(\)\.map_or\(false,\|(\w+)\|\1\.extends_port\(port\)\)$")


def _fn_span(src, name):
    hits = [m for m in re.finditer(r"\bfn\s+%s\s*\(" % name, src)]
    if len(hits) != 1:
        raise Skip("fn %s found %d times in %s" % (name, len(hits), CONTROLLER))
    try:
        par = src.index("(", hits[0].start())
        sig_end = _match(src, par)
        m = re.match(r"\s*(->\s*[\w:<>\[\]\s]+?)?\s*\{", src[sig_end + 1:])
        if not m:
            raise Skip("fn %s: body not found" % name)
        open_brace = sig_end + 1 + m.end() - 1
        return open_brace + 1, _match(src, open_brace)
    except ValueError as e:
        raise Skip("fn %s: %s" % (name, e))


def _parse_chain(src, i, end, where):
    """src[i:] starts with `if`; returns ([(cond, cond_pos, body, body_pos)], else (body, pos) | None, end)"""
    branches = []
    while True:
        j = i + 2
        depth, k = 0, j
        while k < end:
            c = src[k]
            if c in "([":
                depth += 1
            elif c in ")]":
                depth -= 1
            elif c == "{" and depth == 0:
                break
            k += 1
        if k >= end:
            raise Fail("%s: `if` without a block" % where(i))
        e = _match(src, k)
        branches.append((src[j:k], j, src[k + 1:e], k + 1))
        p = e + 1
        while p < end and src[p].isspace():
            p += 1
        if _word_at(src, p, "else"):
            p += 4
            while p < end and src[p].isspace():
                p += 1
            if _word_at(src, p, "if"):
                i = p
                continue
            if src[p] == "{":
                e2 = _match(src, p)
                return branches, (src[p + 1:e2], p + 1), e2 + 1
            raise Fail("%s: `else` followed by neither `if` nor a block" % where(p))
        return branches, None, e + 1


def _decode_fn(src, name, devices, is_read):
    """-> ([(guard, mask, value, dev)], else_dev) of fn `name`; Skip if not located, Fail if not classifiable"""
    lo, hi = _fn_span(src, name)
    try:
        return _decode_located(src, name, devices, is_read, lo, hi)
    except (Skip, Fail):
        raise
    except Exception as e:  # the function is there but its text defeats the parser: loud, not dropped
        raise Fail("%s:%d: %s could not be parsed (%r)" % (CONTROLLER, src.count("\n", 0, lo) + 1, name, e))


def _decode_located(src, name, devices, is_read, lo, hi):

    def where(pos):
        return "%s:%d" % (CONTROLLER, src.count("\n", 0, pos) + 1)

    def first_line(t):
        t = " ".join(t.split())
        return t if len(t) <= 70 else t[:67] + "..."
    # the chain is read as a decision list over the *argument* `port`: no early exit, no rebinding
    for m in re.finditer(r"\breturn\b", src[lo:hi]):
        raise Fail("%s: `return` inside %s (the chain is no longer the whole decision)" % (where(lo + m.start()), name))
    for m in re.finditer(r"\blet\s+(?:mut\s+)?port\b|\bport\s*(?:[-+*/%^|&]|<<|>>)?=[^=]", src[lo:hi]):
        raise Fail("%s: `port` is rebound or assigned inside %s" % (where(lo + m.start()), name))
    chains, depth, k = [], 0, lo
    while k < hi:
        c = src[k]
        if c in "([{":
            depth += 1
        elif c in ")]}":
            depth -= 1
        elif depth == 0 and _word_at(src, k, "match"):
            raise Fail("%s: top-level `match` in %s: cannot tell whether it decodes the port" % (where(k), name))
        elif depth == 0 and _word_at(src, k, "if"):
            br, els, e = _parse_chain(src, k, hi, where)
            chains.append((k, br, els))
            k = e
            continue
        k += 1
    if not chains:
        raise Skip("no if / else-if chain at the top level of %s" % name)
    if len(chains) > 1:
        raise Fail("%s: a second top-level `if` in %s (first at %s): cannot tell which one decodes the port"
                   % (where(chains[1][0]), name, where(chains[0][0])))
    _, branches, els = chains[0]

    def classify_body(body, pos, bound):
        nb = _squash(body)
        hits = [dev for dev, test in devices if test(nb, bound)]
        if len(hits) != 1:
            raise Fail("%s: %s branch body `%s` matches %s device keyword(s) %s" % (
                where(pos), name, first_line(body), "no" if not hits else "several", hits or ""))
        return hits[0]

    out = []
    for cond, cpos, body, bpos in branches:
        nc = _strip_parens(_squash(cond))
        guard, test, bound = None, None, None
        m = re.match(r"^letSome\((\w+)\)=(\w+)$", nc)
        if m:  # `if let Some(value) = io_extender_value`: the host extender claimed the port and was read
            bound, var = m.group(1), m.group(2)
            defs = re.findall(r"\blet\s+%s\s*=\s*(.*?);" % var, src[lo:cpos], flags=re.S)
            if len(defs) != 1 or not _EXT_READ_DEF.match(_squash(defs[0])):
                raise Fail("%s: `if let` on `%s`, which is not the known extender probe "
                           "`self.io_extender.as_mut().and_then(|e| e.extends_port(port).then(|| e.read(port)))`"
                           % (where(cpos), var))
            guard = "extender"
        elif _EXT_WRITE_COND.match(nc):
            guard = "extender"
        else:
            for atom in _split_and(nc):
                atom = _strip_parens(atom)
                mt = _MASK_TEST.match(atom)
                if mt:
                    if test is not None:
                        raise Fail("%s: two address tests in one branch of %s: `%s`" % (where(cpos), name, first_line(cond)))
                    test = (num(mt.group(1)), num(mt.group(2)))
                    if not (0 <= test[0] <= 0xFFFF and 0 <= test[1] <= 0xFFFF):
                        raise Fail("%s: mask/value outside 16 bits: `%s`" % (where(cpos), first_line(cond)))
                elif atom in _GUARD_ATOMS:
                    if guard is not None:
                        raise Fail("%s: two device guards in one branch of %s: `%s`" % (where(cpos), name, first_line(cond)))
                    guard = _GUARD_ATOMS[atom]
                else:
                    raise Fail("%s: cannot classify condition `%s` of %s (part `%s`)" % (
                        where(cpos), first_line(cond), name, atom))
        dev = classify_body(body, bpos, bound)
        out.append((guard or "none", test[0] if test else 0, test[1] if test else 0, dev))
    if els is None:
        if is_read:
            raise Fail("%s: the chain of %s has no final `else`" % (where(chains[0][0]), name))
        else_dev = "none"
    elif not is_read and not _squash(els[0]):
        else_dev = "none"
    else:
        else_dev = classify_body(els[0], els[1], None)
    return out, else_dev


_READ_DEVS = [
    ("extender", lambda b, bound: bound is not None and b == bound),
    ("ula", lambda b, _: "self.keyboard[" in b),
    ("mouseButtons", lambda b, _: "self.mouse" in b and "buttons_port" in b),
    ("mouseX", lambda b, _: "self.mouse" in b and "x_pos_port" in b),
    ("mouseY", lambda b, _: "self.mouse" in b and "y_pos_port" in b),
    ("ay", lambda b, _: "read_ay_port(" in b),
    ("kempston", lambda b, _: "self.kempston" in b and ".read()" in b),
    ("floating", lambda b, _: "floating_bus_value(" in b),
]
_WRITE_DEVS = [
    ("extender", lambda b, _: "self.io_extender" in b and ".write(port,data)" in b),
    ("aySelect", lambda b, _: "select_ay_reg(" in b),
    ("ayData", lambda b, _: "write_ay_port(" in b),
    ("ula", lambda b, _: "set_border_color(" in b),
    ("paging", lambda b, _: "write_7ffd(" in b),
]

_PORTS_HEAD = """/- GENERATED by tools/extract.py from rustzx-core/src/zx/controller.rs (the if / else-if chains of
read_io and write_io, one entry per branch in source order). Do not edit. -/
import ZxVerif.Model.Machine
namespace ZxVerif.Extracted
open ZxVerif.Machine

/-- what a branch requires besides its address test: nothing, the host extender claiming the port
(`extends_port`), `self.mouse.is_some()`, `self.kempston.is_some()`, `self.machine == Sinclair128K` -/
inductive Guard | none | extender | mouse | kempston | is128k
  deriving DecidableEq, Repr

def Guard.holds (cfg : IoCfg) : Guard → Bool
  | .none => true
  | .extender => cfg.extender
  | .mouse => cfg.mouse
  | .kempston => cfg.kempston
  | .is128k => cfg.kind.is128

/-- first branch whose guard holds and whose test `port & mask == value` succeeds; `dflt` = the final `else` -/
def evalChain {α : Type} (cfg : IoCfg) (port : BitVec 16) : List (Guard × BitVec 16 × BitVec 16 × α) → α → α
  | [], dflt => dflt
  | (g, mask, value, dev) :: rest, dflt =>
    if g.holds cfg && (port &&& mask == value) then dev else evalChain cfg port rest dflt
"""


def _emit_failed(path, msg):
    """a generated file that cannot build: the theorems over it must not silently keep an older chain"""
    text = ("/- GENERATED by tools/extract.py — THE SOURCE WAS LOCATED BUT COULD NOT BE TRANSLATED. Do not edit. -/\n"
            "#eval (throw (IO.userError %s) : IO Unit)\n" % ('"' + msg.replace("\\", "\\\\").replace('"', '\\"') + '"'))
    with open(path, "w") as f:
        f.write(text)


def ports(repo):
    src = blank_comments(read(repo, CONTROLLER))
    rd, rd_else = _decode_fn(src, "read_io", _READ_DEVS, True)
    wr, wr_else = _decode_fn(src, "write_io", _WRITE_DEVS, False)
    t = [_PORTS_HEAD]

    def chain(name, ty, rows, what):
        t.append("/-- `%s`: (guard, mask, value, device) of every `if` / `else if`, in source order -/" % what)
        t.append("def %s : List (Guard × BitVec 16 × BitVec 16 × %s) := [" % (name, ty))
        for n, (g, m, v, d) in enumerate(rows):
            t.append("  (.%s, 0x%04X, 0x%04X, .%s)%s" % (g, m, v, d, "," if n + 1 < len(rows) else ""))
        t.append("]")
    chain("readChain", "ReadDev", rd, "read_io")
    t.append("/-- the final `else` of `read_io` -/")
    t.append("def readElse : ReadDev := .%s" % rd_else)
    t.append("")
    chain("writeChain", "WriteDev", wr, "write_io")
    t.append("/-- the final `else` of `write_io` (absent in the source: nothing happens) -/")
    t.append("def writeElse : WriteDev := .%s" % wr_else)
    t.append("")
    t.append("def readDecode (cfg : IoCfg) (port : BitVec 16) : ReadDev := evalChain cfg port readChain readElse")
    t.append("def writeDecode (cfg : IoCfg) (port : BitVec 16) : WriteDev := evalChain cfg port writeChain writeElse")
    t += ["", "end ZxVerif.Extracted"]
    return "\n".join(t) + "\n"


# >>> snapshot layouts
# ---------------------------------------------------------------------------------------------------
# SnaLayout / SzxLayout: the byte layouts of sna.rs (save, load) and szx.rs (load, process_*_block),
# translated statement by statement (C13, C14)
# ---------------------------------------------------------------------------------------------------

SNA_RS = "rustzx-core/src/emulator/snapshot/sna.rs"
SZX_RS = "rustzx-core/src/emulator/snapshot/szx.rs"
MEMORY_RS = "rustzx-core/src/zx/memory.rs"


class _Src:
    """a Rust source file: comments blanked (offsets kept), its `const` items, line numbers"""

    def __init__(self, repo, rel):
        self.rel = rel
        try:
            raw = read(repo, rel)
        except OSError:
            raise Skip("%s not found" % rel)
        self.text = blank_comments(raw, keep_strings=True)
        self.consts = {}
        for m in re.finditer(r"\bconst\s+(\w+)\s*:\s*[^=;]+?=\s*([^;]+);", self.text):
            self.consts[m.group(1)] = m.group(2).strip()

    def where(self, pos):
        return "%s:%d" % (self.rel, self.text.count("\n", 0, pos) + 1)

    def value(self, expr, at="?"):
        """integer value of a constant expression: literals, named constants, + - * and parentheses"""
        e = expr
        for _ in range(12):
            names = set(re.findall(r"(?<![\w.])[A-Za-z_]\w*", e))
            if not names:
                break
            for n in names:
                if n not in self.consts:
                    raise Fail("%s: `%s` is not a constant expression this extractor can evaluate (`%s` unknown)"
                               % (at, expr, n))
                e = re.sub(r"(?<![\w.])%s\b" % re.escape(n), "(" + self.consts[n] + ")", e)
        e = re.sub(r"(?<=[0-9a-fA-F_])(?:usize|u8|u16|u32|u64|i32|i64)\b", "", e).replace("_", "")
        if not re.fullmatch(r"[0-9a-fA-FxX+\-*()\s]+", e):
            raise Fail("%s: `%s` is not a constant expression this extractor can evaluate" % (at, expr))
        try:
            return int(eval(e, {"__builtins__": {}}, {}))
        except Exception:
            raise Fail("%s: `%s` is not a constant expression this extractor can evaluate" % (at, expr))

    def values(self, expr, at="?"):
        """a constant array `&[a, b, ...]`, literal or named"""
        e = expr.strip()
        if re.fullmatch(r"\w+", e) and e in self.consts:
            e = self.consts[e].strip()
        m = re.fullmatch(r"&?\s*\[([^\]]*)\]", e)
        if not m:
            raise Fail("%s: `%s` is not a constant array" % (at, expr))
        return [self.value(x, at) for x in m.group(1).split(",") if x.strip()]


def _norm_map(s, lo, hi):
    """s[lo:hi] with white space removed except one blank between two identifier characters;
    second result: for every character of the output its offset in s"""
    out, pos = [], []
    k = lo
    while k < hi:
        c = s[k]
        if c.isspace():
            j = k
            while j < hi and s[j].isspace():
                j += 1
            if out and j < hi and _ident(out[-1]) and _ident(s[j]):
                out.append(" ")
                pos.append(k)
            k = j
        else:
            out.append(c)
            pos.append(k)
            k += 1
    return "".join(out), pos


class _Body:
    """one function body, normalised; keeps track of which parts of it the translation accounted for"""

    def __init__(self, src, name):
        hits = list(re.finditer(r"\bfn\s+%s\b" % name, src.text))
        if len(hits) != 1:
            raise Skip("fn %s found %d times in %s" % (name, len(hits), src.rel))
        try:
            par = src.text.index("(", hits[0].end())
            sig_end = _match(src.text, par)
            ob = src.text.index("{", sig_end)
            cb = _match(src.text, ob)
        except ValueError as e:
            raise Skip("fn %s in %s: %s" % (name, src.rel, e))
        self.src, self.name = src, name
        self.sig = _norm_map(src.text, par, sig_end + 1)[0]
        self.t, self.pos = _norm_map(src.text, ob + 1, cb)
        self.used = []

    def where(self, k):
        return self.src.where(self.pos[max(0, min(k, len(self.pos) - 1))])

    def at(self, k, n=48):
        return "%s: `%s`" % (self.where(k), self.t[k:k + n])

    def use(self, a, b=None):
        if b is None:
            a, b = a.start(), a.end()
        self.used.append((a, b))

    def is_used(self, k):
        return any(a <= k < b for a, b in self.used)

    def value(self, expr, k):
        return self.src.value(expr, self.where(k))

    def account(self, arr):
        """every `arr[...]` of the body lies inside a statement the translation understood"""
        for m in re.finditer(r"(?<![\w.])%s\[" % re.escape(arr), self.t):
            if not self.is_used(m.start()):
                raise Fail("%s: fn %s uses `%s` in a way the extractor cannot classify: `%s`"
                           % (self.where(m.start()), self.name, arr, self.t[max(0, m.start() - 24):m.start() + 40]))

    def block_after(self, k):
        """(start, end) of the `{...}` block opening at offset k of the normalised text"""
        return k + 1, _match(self.t, k)


_GET8 = {"get_i": ("i", 0), "get_r": ("r", 0),
         "get_l_alt": ("hl'", 0), "get_h_alt": ("hl'", 1), "get_e_alt": ("de'", 0), "get_d_alt": ("de'", 1),
         "get_c_alt": ("bc'", 0), "get_b_alt": ("bc'", 1), "get_flags_alt": ("af'", 0), "get_acc_alt": ("af'", 1),
         "get_l": ("hl", 0), "get_h": ("hl", 1), "get_e": ("de", 0), "get_d": ("de", 1),
         "get_c": ("bc", 0), "get_b": ("bc", 1), "get_flags": ("af", 0), "get_acc": ("af", 1)}
_REG8 = {"A": ("af", 1), "F": ("af", 0), "B": ("bc", 1), "C": ("bc", 0), "D": ("de", 1), "E": ("de", 0),
         "H": ("hl", 1), "L": ("hl", 0), "I": ("i", 0), "R": ("r", 0)}
_GET16 = {"get_af": "af", "get_bc": "bc", "get_de": "de", "get_hl": "hl", "get_ix": "ix", "get_iy": "iy",
          "get_sp": "sp", "get_pc": "pc"}
_REG16 = {"AF": "af", "BC": "bc", "DE": "de", "HL": "hl", "IX": "ix", "IY": "iy", "SP": "sp"}
_A = r"(\w+)\[([^\]\[]+)\]"   # an indexed byte: (array, index expression)


class _SnaSave:
    """`sna::save`: where every header byte comes from, the order of the pieces of the file"""

    def __init__(self, src):
        self.src = src
        b = self.b = _Body(src, "save")
        m = re.search(r"let mut (\w+)=\[0u8;([^\]]+)\];", b.t)
        if not m:
            raise Skip("save: the header array `let mut header = [0u8; N]` not found")
        self.hdr, self.header_size = m.group(1), b.value(m.group(2), m.start())
        if len(re.findall(r"let mut \w+=\[0u8;", b.t)) != 1:
            raise Skip("save: more than one byte array")
        m = re.search(r"let (\w+)=emulator\.settings\.machine==ZXMachine::Sinclair(48K|128K);", b.t)
        if not m:
            raise Skip("save: the machine test `let is_48k = ... == ZXMachine::Sinclair48K` not found")
        self.mvar, self.mvar_is48 = m.group(1), m.group(2) == "48K"
        self.sp_delta48 = 0
        self.paged_addr = None
        self.header_io = "write_all(&%s)" % self.hdr
        self.header = self._header()
        self.seg48, self.seg128 = self._pieces()

    # -- where a byte / a word comes from ------------------------------------------------------------
    def _let(self, name):
        ms = list(re.finditer(r"let (?:mut )?%s=" % re.escape(name), self.b.t))
        if len(ms) != 1:
            return None
        k = ms[0].end()
        depth, j = 0, k
        while j < len(self.b.t):
            c = self.b.t[j]
            if c in "([{":
                depth += 1
            elif c in ")]}":
                depth -= 1
            elif c == ";" and depth == 0:
                break
            j += 1
        return self.b.t[k:j]

    def word_source(self, e, k):
        b = self.b
        m = re.fullmatch(r"emulator\.cpu\.regs\.(get_\w+)\(\)", e)
        if m and m.group(1) in _GET16:
            return _GET16[m.group(1)]
        m = re.fullmatch(r"emulator\.cpu\.regs\.get_reg_16\(RegName16::(\w+)\)", e)
        if m and m.group(1) in _REG16:
            return _REG16[m.group(1)]
        if re.fullmatch(r"\w+", e):
            d = self._let(e)
            if d is not None:
                m = re.fullmatch(r"if (\w+)\{(.+?)\}else\{(.+?)\}", d)
                if m and m.group(1) == self.mvar:
                    x, y = (m.group(2), m.group(3)) if self.mvar_is48 else (m.group(3), m.group(2))
                    mm = re.fullmatch(r"(.+)\.wrapping_sub\(([^()]+)\)", x)
                    if mm and self.word_source(mm.group(1), k) == self.word_source(y, k):
                        self.sp_delta48 = b.value(mm.group(2), k)
                        return self.word_source(y, k)
                else:
                    return self.word_source(d, k)
        raise Fail("%s: save: cannot tell which 16-bit register `%s` is" % (b.where(k), e))

    def byte_source(self, e, k):
        b = self.b
        m = re.fullmatch(r"emulator\.cpu\.regs\.(get_\w+)\(\)", e)
        if m and m.group(1) in _GET8:
            return _GET8[m.group(1)]
        m = re.fullmatch(r"emulator\.cpu\.regs\.get_reg_8\(RegName8::(\w+)\)", e)
        if m and m.group(1) in _REG8:
            return _REG8[m.group(1)]
        if re.fullmatch(r"emulator\.cpu\.get_im\(\)(\.into\(\)|as u8)", e):
            return ("im", 0)
        if re.fullmatch(r"emulator\.controller\.border_color(\(\))?(\.into\(\)|as u8)", e):
            return ("border", 0)
        if re.fullmatch(r"emulator\.controller\.read_7ffd\(\)", e):
            return ("port7ffd", 0)
        if re.fullmatch(r"0x0+|0+", e):
            return ("zero", 0)
        if re.fullmatch(r"\w+", e):
            for m in re.finditer(r"let\[(\w+),(\w+)\]=([^;]+?)\.to_(le|be)_bytes\(\);", b.t):
                if e in (m.group(1), m.group(2)):
                    part = 0 if e == m.group(1) else 1
                    if m.group(4) == "be":
                        part = 1 - part
                    return (self.word_source(m.group(3), m.start()), part)
            d = self._let(e)
            if d is not None:
                return self.byte_source(d, k)
        raise Fail("%s: save: cannot tell which register byte `%s` is" % (b.where(k), e))

    def _header(self):
        b, hdr = self.b, re.escape(self.hdr)
        out = []
        for m in re.finditer(r"if emulator\.cpu\.regs\.get_iff([12])\(\)\{%s\[([^\]]+)\]=([^;{}]+);\}" % hdr, b.t):
            b.use(m)
            out.append(("iff" + m.group(1), 0, b.value(m.group(2), m.start()), b.value(m.group(3), m.start())))
        for m in re.finditer(r"(?<![\w.])%s\[([^\]]+)\]=(?!=)([^;]*);" % hdr, b.t):
            if b.is_used(m.start()):
                continue
            f, part = self.byte_source(m.group(2), m.start())
            out.append((f, part, b.value(m.group(1), m.start()), 0xFF))
            b.use(m)
        if not out:
            raise Skip("save: no `header[k] = ...` stores found")
        m = re.search(r"recorder\.write_all\(&%s\)\?;" % hdr, b.t)
        if not m:
            raise Skip("save: the header is not written with `recorder.write_all(&header)`")
        b.use(m)
        self.header_write = m.start()
        b.account(self.hdr)
        out.sort(key=lambda e: e[2])
        return out

    # -- the pieces of the file after the header -----------------------------------------------------
    def paged_local(self, name, k):
        d = self._let(name)
        m = d and re.fullmatch(r"match emulator\.controller\.memory\.get_page\(([^()]+)\)\{(.*)\}", d)
        if not m:
            return False
        arms = m.group(2)
        if not (re.search(r"Page::Ram\((\w+)\)=>\1,", arms) and re.search(r"Page::Rom\(_\)=>0,?", arms)):
            raise Fail("%s: save: `%s` is not `match get_page(..) { Ram(bank) => bank, Rom(_) => 0 }`" % (self.b.where(k), name))
        addr = self.b.value(m.group(1), k)
        if self.paged_addr not in (None, addr):
            raise Fail("%s: two different addresses decide the paged bank" % self.b.where(k))
        self.paged_addr = addr
        return True

    def bank_list(self, it, k):
        """the iterable of a `for` over RAM banks -> list of bank numbers / 'paged'"""
        b = self.b
        it = it.strip()
        m = re.fullmatch(r"(\w+)\.\.(\w+)", it)
        if m:
            return list(range(b.value(m.group(1), k), b.value(m.group(2), k)))
        if re.fullmatch(r"\w+", it) and it not in self.src.consts:
            d = self._let(it)
            if d is None:
                raise Fail("%s: cannot tell what `%s` iterates over" % (b.where(k), it))
            it = d
        m = re.fullmatch(r"&?\[([^\]]*)\]", it)
        if m:
            out = []
            for x in [x for x in m.group(1).split(",") if x]:
                if re.fullmatch(r"\w+", x) and x not in self.src.consts and not x[0].isdigit():
                    if not self.paged_local(x, k):
                        raise Fail("%s: cannot tell which bank `%s` is" % (b.where(k), x))
                    out.append("paged")
                else:
                    out.append(b.value(x, k))
            return out
        return self.src.values(it, b.where(k))

    def pieces_of(self, lo, hi, io_call, page_call, seeks=False):
        """top-level `for` loops over banks and direct `io_call(&[..])` of t[lo:hi], in order"""
        b = self.b
        segs, k, n_io = [], lo, 0
        while k < hi:
            m = re.compile(r"for (\w+) in ([^{]+)\{").match(b.t, k)
            if m and (k == 0 or not _ident(b.t[k - 1])):
                s, e = b.block_after(m.end() - 1)
                body, var = b.t[s:e], m.group(1)
                if len(re.findall(re.escape(io_call) + r"\(", body)) != 1 or \
                        not re.search(r"%s\(\*?%s\)" % (re.escape(page_call), var), body):
                    raise Fail("%s: %s: a loop that is not `for bank in .. { %s(bank) .. %s(..) }`"
                               % (b.where(k), b.name, page_call, io_call))
                banks = self.bank_list(m.group(2), k)
                sk = re.search(r"if\*?%s==(\w+)\{continue;\}" % var, body)
                if sk:
                    if not self.paged_local(sk.group(1), k) or "paged" in banks:
                        raise Fail("%s: %s: cannot classify the skipped bank `%s`" % (b.where(k), b.name, sk.group(1)))
                    segs.append((k, "rest", banks))
                elif "continue" in body:
                    raise Fail("%s: %s: `continue` under a condition the extractor cannot classify" % (b.where(k), b.name))
                else:
                    segs += [(k, "paged", None) if x == "paged" else (k, "bank", x) for x in banks]
                n_io += 1
                k = e + 1
                continue
            m = re.compile(r"asset\.seek\(SeekFrom::(\w+)\(([^()]+)\)\)").match(b.t, k) if seeks else None
            if m:
                if m.group(1) != "Start":
                    raise Fail("%s: %s: a seek that is not `SeekFrom::Start(constant)`" % (b.where(k), b.name))
                segs.append((k, "seek", b.value(m.group(2), k)))
                k = m.end()
                continue
            m = re.compile(re.escape(io_call) + r"\(&(?:mut )?(\[[^\]]*\]|\w+)\)").match(b.t, k)
            if m:
                segs.append((k, "io", m.group(1)))
                n_io += 1
                k = m.end()
                continue
            k += 1
        if n_io != len(re.findall(re.escape(io_call) + r"\(", b.t[lo:hi])):
            raise Fail("%s: %s: a `%s` call the extractor cannot place" % (b.where(lo), b.name, io_call))
        return segs

    def branches(self, need):
        """the `if <machine test> { A } else { B }` whose blocks contain `need` -> ((lo,hi) 48K, (lo,hi) 128K)"""
        b = self.b
        for m in re.finditer(r"(?<![\w=])if %s\{" % re.escape(self.mvar), b.t):
            s, e = b.block_after(m.end() - 1)
            mm = re.compile(r"else\{").match(b.t, e + 1)
            if not mm:
                continue
            s2, e2 = b.block_after(mm.end() - 1)
            if need in b.t[s:e] and need in b.t[s2:e2]:
                outside = b.t[self.header_write:m.start()] + b.t[e2 + 1:]
                if need in outside.replace(self.header_io, ""):
                    raise Fail("%s: %s: `%s` outside the two machine branches" % (b.where(m.start()), b.name, need))
                return ((s, e), (s2, e2)) if self.mvar_is48 else ((s2, e2), (s, e))
        raise Skip("%s: `if %s { .. } else { .. }` around the memory pieces not found" % (b.name, self.mvar))

    def _pieces(self):
        (a48, z48), (a128, z128) = self.branches("write_all(")
        out = []
        for lo, hi in ((a48, z48), (a128, z128)):
            segs = []
            for k, kind, x in self.pieces_of(lo, hi, "recorder.write_all", "ram_page_data"):
                if kind == "io":
                    m = re.fullmatch(r"\[([^\]]*)\]", x)
                    if not m:
                        raise Fail("%s: save: cannot classify what `write_all(&%s)` writes" % (self.b.where(k), x))
                    segs.append(("bytes", [self.byte_source(y, k) for y in m.group(1).split(",") if y]))
                else:
                    segs.append((kind, x))
            out.append(segs)
        return out


class _Reads:
    """the statements of a loader body that consume bytes of byte arrays, with the EXX / EX AF,AF'
    bookkeeping: which file byte ends up in which register when the function returns"""

    PAIRS = (("bc", "bc'"), ("de", "de'"), ("hl", "hl'"))

    def __init__(self, b, arrays):
        self.b, self.arrays = b, arrays
        self.slots = {n: ("old", n) for n in ("af", "bc", "de", "hl", "af'", "bc'", "de'", "hl'")}
        self.entries = []     # (field, part, array, index, mask)
        self.flag_bits = []   # (target, mask) of tests `local & MASK != 0`
        self.min_len = {}     # array -> [lengths tested with `len() < N` / `is_empty()`], in source order
        self.limits = []      # (array, index, mask, largest accepted value)
        self.byte_locals, self.bool_locals, self.consumed = {}, {}, set()
        self.order = {}       # field -> position of the statement that applies it
        self.misc = {}
        self._scan()

    def idx(self, m, g):
        arr, e = m.group(g), m.group(g + 1)
        if arr not in self.arrays:
            return None
        return (arr, self.b.value(e, m.start()))

    def _scan(self):
        b = self.b
        ev = []

        def add(rx, fn):
            for m in re.finditer(rx, b.t):
                ev.append((m.start(), m, fn))
        A = _A
        add(r"\.set_(af|bc|de|hl|ix|iy|sp|pc|mem_ptr)\(u16::from_(le|be)_bytes\(\[%s,%s,?\]\)\)" % (A, A), self.e_set16)
        add(r"\.set_(i|r)\(%s\)" % A, self.e_set8)
        add(r"\.set_iff([12])\(%s(?:>0|!=0)\)" % A, self.e_iff_direct)
        add(r"\.set_iff([12])\((\w+)\)", self.e_iff_local)
        add(r"\.set_im\(%s(?:&(\w+))?\)" % A, self.e_im)
        add(r"set_border_color\([\w.]+,ZXColor::from_bits\(%s(?:&(\w+))?\),?\)" % A, self.e_border)
        add(r"\.exx\(\)", self.e_exx)
        add(r"\.swap_af_alt\(\)", self.e_exaf)
        add(r"restore_frame_clocks\(u32::from_(le|be)_bytes\(\[%s,%s,%s,%s,?\]\)as usize\)" % (A, A, A, A), self.e_clocks)
        add(r"let (?:mut )?(\w+)=\(?%s&(\w+)\)?!=0;" % A, self.e_bool_local)
        add(r"let (?:mut )?(\w+)=%s(?:as u32|as usize)?;" % A, self.e_byte_local)
        add(r"let (?:mut )?(\w+)=u16::from_(le|be)_bytes\(\[%s,%s,?\]\)(?:as u32|as usize)?;" % (A, A), self.e_word_local)
        add(r"let (?:mut )?(\w+)=u32::from_(le|be)_bytes\(\[%s,%s,%s,%s,?\]\)(?:as usize)?;" % (A, A, A, A), self.e_dword_local)
        add(r"let _=%s;" % A, self.e_ignored)
        add(r"restore_7ffd\(%s\)" % A, self.e_7ffd_direct)
        add(r"restore_7ffd\(([a-z_]\w*)\)", self.e_7ffd_local)
        add(r"write_io\((\w+),%s,?\)" % A, self.e_write_io)
        add(r"emulator\.cpu\.(skip_interrupt|halted)=(\w+)&(\w+)!=0;", self.e_flag_assign)
        add(r"if (\w+)&(\w+)!=0\{emulator\.cpu\.regs\.set_q\(\);?\}else\{emulator\.cpu\.regs\.clear_q\(\);?\}", self.e_flag_q)
        add(r"if ([^{}]+)\{return Err\(([\w:]+)\.into\(\)\);\}", self.e_guard)
        ev.sort(key=lambda e: e[0])
        for _, m, fn in ev:
            fn(m)
        self._unconsumed_check()

    def _unconsumed_check(self):
        b = self.b
        for name, (arr, i, k) in self.byte_locals.items():
            if name not in self.consumed:
                if name.startswith("_"):
                    self.entries.append(("ignored", 0, arr, i, 0xFF))
                else:
                    raise Fail("%s: fn %s reads `%s[%d]` into `%s`; the extractor cannot tell what for"
                               % (b.where(k), b.name, arr, i, name))
        for name, (arr, i, mask, k) in self.bool_locals.items():
            if name not in self.consumed:
                raise Fail("%s: fn %s tests `%s[%d] & 0x%X` into `%s`; the extractor cannot tell what for"
                           % (b.where(k), b.name, arr, i, mask, name))

    # -- events ---------------------------------------------------------------------------------
    @staticmethod
    def _key(m):
        """name of a local; the throw-away names `_`, `_x` may be bound several times"""
        return m.group(1) if not m.group(1).startswith("_") else "%s@%d" % (m.group(1), m.start())

    def e_set16(self, m):
        lo, hi = self.idx(m, 3), self.idx(m, 5)
        if lo is None or hi is None:
            return
        if m.group(2) == "be":
            lo, hi = hi, lo
        reg = {"mem_ptr": "memptr"}.get(m.group(1), m.group(1))
        if reg in self.slots:
            self.slots[reg] = (lo, hi)
        else:
            self.entries += [(reg, 0, lo[0], lo[1], 0xFF), (reg, 1, hi[0], hi[1], 0xFF)]
        self.b.use(m)

    def e_set8(self, m):
        s = self.idx(m, 2)
        if s:
            self.entries.append((m.group(1), 0, s[0], s[1], 0xFF))
            self.b.use(m)

    def e_iff_direct(self, m):
        s = self.idx(m, 2)
        if s:
            self.entries.append(("iff" + m.group(1), 0, s[0], s[1], 0xFF))
            self.b.use(m)

    def e_iff_local(self, m):
        if m.group(2) in self.bool_locals:
            arr, i, mask, _ = self.bool_locals[m.group(2)]
            self.entries.append(("iff" + m.group(1), 0, arr, i, mask))
            self.consumed.add(m.group(2))
            self.b.use(m)

    def e_im(self, m):
        s = self.idx(m, 1)
        if s:
            self.entries.append(("im", 0, s[0], s[1], self.b.value(m.group(3), m.start()) if m.group(3) else 0xFF))
            self.b.use(m)

    def e_border(self, m):
        s = self.idx(m, 1)
        if s:
            self.entries.append(("border", 0, s[0], s[1], self.b.value(m.group(3), m.start()) if m.group(3) else 0xFF))
            self.order["border"] = m.start()
            self.b.use(m)

    def e_exx(self, m):
        for x, y in self.PAIRS:
            self.slots[x], self.slots[y] = self.slots[y], self.slots[x]

    def e_exaf(self, m):
        self.slots["af"], self.slots["af'"] = self.slots["af'"], self.slots["af"]

    def e_clocks(self, m):
        s = [self.idx(m, g) for g in (2, 4, 6, 8)]
        if None in s:
            return
        if m.group(1) == "be":
            s.reverse()
        self.entries += [("cyclesStart", p, a, i, 0xFF) for p, (a, i) in enumerate(s)]
        self.b.use(m)

    def e_bool_local(self, m):
        s = self.idx(m, 2)
        if s:
            self.bool_locals[m.group(1)] = (s[0], s[1], self.b.value(m.group(4), m.start()), m.start())
            self.b.use(m)

    def e_byte_local(self, m):
        s = self.idx(m, 2)
        if s and m.group(1) != "_":
            self.byte_locals[self._key(m)] = (s[0], s[1], m.start())
            self.b.use(m)

    def e_word_local(self, m):
        lo, hi = self.idx(m, 3), self.idx(m, 5)
        if lo is None or hi is None:
            return
        if m.group(2) == "be":
            lo, hi = hi, lo
        self.misc.setdefault("word_locals", {})[self._key(m)] = (lo, hi, m.start())
        self.b.use(m)

    def e_dword_local(self, m):
        s = [self.idx(m, g) for g in (3, 5, 7, 9)]
        if None in s:
            return
        if m.group(2) == "be":
            s.reverse()
        self.misc.setdefault("dword_locals", {})[self._key(m)] = (s, m.start())
        self.b.use(m)

    def e_ignored(self, m):
        s = self.idx(m, 1)
        if s:
            self.entries.append(("ignored", 0, s[0], s[1], 0xFF))
            self.b.use(m)

    def e_7ffd_direct(self, m):
        s = self.idx(m, 1)
        if s:
            self.entries.append(("port7ffd", 0, s[0], s[1], 0xFF))
            self.order["port7ffd"] = m.start()
            self.b.use(m)

    def e_7ffd_local(self, m):
        if m.group(1) in self.byte_locals:
            arr, i, _ = self.byte_locals[m.group(1)]
            self.entries.append(("port7ffd", 0, arr, i, 0xFF))
            self.consumed.add(m.group(1))

    def e_write_io(self, m):
        s = self.idx(m, 2)
        if s:
            self.entries.append(("portFe", 0, s[0], s[1], 0xFF))
            self.misc["io_port"] = self.b.value(m.group(1), m.start())
            self.order["portFe"] = m.start()
            self.b.use(m)

    def _flags_local(self, name, k):
        if name not in self.byte_locals:
            return False
        if name not in self.consumed:
            arr, i, _ = self.byte_locals[name]
            self.entries.append(("flags", 0, arr, i, 0xFF))
            self.consumed.add(name)
        return True

    def e_flag_assign(self, m):
        if self._flags_local(m.group(2), m.start()):
            self.flag_bits.append(({"skip_interrupt": "eiLast", "halted": "halted"}[m.group(1)],
                                   self.b.value(m.group(3), m.start())))

    def e_flag_q(self, m):
        if self._flags_local(m.group(1), m.start()):
            self.flag_bits.append(("fSet", self.b.value(m.group(2), m.start())))

    def e_guard(self, m):
        cond = m.group(1)
        ok = True
        found = []
        for atom in cond.split("||"):
            atom = _strip_parens(atom)
            mm = re.fullmatch(r"(\w+)\.len\(\)<(\w+)", atom)
            if mm and mm.group(1) in self.arrays:
                found.append(("len", mm.group(1), self.b.value(mm.group(2), m.start())))
                continue
            mm = re.fullmatch(r"(\w+)\.is_empty\(\)", atom)
            if mm and mm.group(1) in self.arrays:
                found.append(("len", mm.group(1), 1))
                continue
            mm = re.fullmatch(r"%s(?:&(\w+))?>(\w+)" % _A, atom)
            if mm and mm.group(1) in self.arrays:
                found.append(("limit", mm.group(1), self.b.value(mm.group(2), m.start()),
                              self.b.value(mm.group(3), m.start()) if mm.group(3) else 0xFF,
                              self.b.value(mm.group(4), m.start())))
                continue
            if any(re.search(r"(?<![\w.])%s\b" % re.escape(a), atom) for a in self.arrays):
                ok = False
        if not ok:
            return     # left unaccounted: `account` reports it if it indexes one of the arrays
        for f in found:
            if f[0] == "len":
                self.min_len.setdefault(f[1], []).append(f[2])
            else:
                self.limits.append(f[1:])
        if found:
            self.b.use(m)
            self.misc.setdefault("guard_errors", []).append(m.group(2).split("::")[-1])

    # -- results ---------------------------------------------------------------------------------
    def finish(self):
        """register pairs as they stand when the function returns -> entries"""
        for reg, src in self.slots.items():
            if src[0] != "old":
                lo, hi = src
                self.entries += [(reg, 0, lo[0], lo[1], 0xFF), (reg, 1, hi[0], hi[1], 0xFF)]
        return self.entries

    def of(self, arr):
        out = [(f, p, i, mask) for f, p, a, i, mask in self.entries if a == arr]
        out.sort(key=lambda e: (e[2], _FIELD_ORDER.index(e[0]) if e[0] in _FIELD_ORDER else 99))
        return out


_FIELD_ORDER = ["i", "hl'", "de'", "bc'", "af'", "hl", "de", "bc", "iy", "ix", "iff1", "iff2", "r", "af", "sp", "im",
                "border", "pc", "port7ffd", "zero", "ignored", "memptr", "cyclesStart", "flags", "portFe"]


class _SnaLoad(_SnaSave):
    """`sna::load`: which header byte every register is read from, where the pieces of the file are sought"""

    def __init__(self, src):
        self.src = src
        b = self.b = _Body(src, "load")
        arrs = [(m.group(1), b.value(m.group(2), m.start()), m.start())
                for m in re.finditer(r"let mut (\w+)=\[0u8;([^\]]+)\];", b.t)]
        reads = [(m.start(), m.group(1)) for m in re.finditer(r"asset\.read_exact\(&mut (\w+)\)\?;", b.t)]
        if not arrs or not reads or reads[0][1] not in [a[0] for a in arrs]:
            raise Skip("load: the header array and its `read_exact` not found")
        self.hdr = reads[0][1]
        self.header_size = [a[1] for a in arrs if a[0] == self.hdr][0]
        self.header_write = reads[0][0]
        self.header_io = "read_exact(&mut %s)" % self.hdr
        m = re.search(r"let (\w+)=size>([^;]+);", b.t)
        if not m:
            raise Skip("load: `let is_128k = size > SNA_48K_SIZE` not found")
        self.mvar, self.mvar_is48 = m.group(1), False
        self.is128_above = b.value(m.group(2), m.start())
        m = re.search(r"if!%s&&size<([^{]+)\{return Err\(IoError::UnexpectedEof" % self.mvar, b.t)
        self.min_size = b.value(m.group(1), m.start()) if m else None
        # where the header is read from
        pre = b.t[:self.header_write]
        seeks = re.findall(r"asset\.seek\(SeekFrom::Start\(([^()]+)\)\)\?;", pre)
        if not seeks:
            raise Skip("load: no `seek(Start(..))` before the header is read")
        self.header_at = b.value(seeks[-1], self.header_write)
        self.paged_addr = None
        self.arr_sizes = {a[0]: a[1] for a in arrs}
        self.reads = _Reads(b, set(self.arr_sizes))
        self.reads.finish()
        for a in self.arr_sizes:
            b.account(a)
        self.header = self.reads.of(self.hdr)
        self.im_limit = [l for l in self.reads.limits if l[0] == self.hdr]
        (a48, z48), (a128, z128) = self.branches("read_exact(")
        self.ops48 = self.ops(a48, z48)
        self.ops128 = self.ops(a128, z128)
        self.pops_pc48 = "pop_pc_from_stack(" in b.t[a48:z48]
        self.pops_pc128 = "pop_pc_from_stack(" in b.t[a128:z128]
        for a in self.arr_sizes:
            if a != self.hdr:
                used = [k for k, _ in reads if a128 <= k < z128]
                if not used:
                    raise Fail("%s: load: `%s` is not read in the 128K branch" % (b.where(a128), a))

    def ops(self, lo, hi):
        b = self.b
        out = []
        for k, kind, x in self.pieces_of(lo, hi, "asset.read_exact", "ram_page_data_mut", seeks=True):
            if kind == "io":
                if x not in self.arr_sizes or x == self.hdr:
                    raise Fail("%s: load: cannot classify what `read_exact(&mut %s)` reads" % (b.where(k), x))
                ent = {i: (f, p) for f, p, i, _ in self.reads.of(x)}
                out.append(("read", ("bytes", [ent.get(i, ("ignored", 0)) for i in range(self.arr_sizes[x])])))
            elif kind == "seek":
                out.append(("seek", x))
            else:
                out.append(("read", (kind, x)))
        return out


def _lean_field(f):
    return "." + f


def _group_fields(entries):
    """[(field, part, offset, mask)] sorted by offset -> [(field, offset, width)]: the bytes of one field
    are put together when they occupy consecutive offsets"""
    out = []
    for f, p, off, _ in entries:
        if out and out[-1][0] == f and out[-1][1] + out[-1][2] == off:
            out[-1] = (f, out[-1][1], out[-1][2] + 1)
        else:
            out.append((f, off, 1))
    return out


def _lean_bytes(name, doc, entries):
    t = ["/-- %s: (field, byte of the field — 0 = least significant, offset, mask) -/" % doc,
         "def %s : List (Field × Nat × Nat × Nat) := [" % name]
    t += ["  (%s, %d, %d, 0x%02X)%s" % (_lean_field(f), p, o, m, "," if n + 1 < len(entries) else "")
          for n, (f, p, o, m) in enumerate(entries)]
    t.append("]")
    return t


def _lean_fields(name, doc, entries):
    g = _group_fields(entries)
    return ["/-- %s: (field, offset, width) -/" % doc,
            "def %s : List (Field × Nat × Nat) := [%s]" % (
                name, ", ".join("(%s, %d, %d)" % (_lean_field(f), o, w) for f, o, w in g))]


def _lean_seg(kind, x):
    if kind == "bank":
        return ".bank %d" % x
    if kind == "paged":
        return ".paged"
    if kind == "rest":
        return ".rest [%s]" % ", ".join(map(str, x))
    if kind == "bytes":
        return ".bytes [%s]" % ", ".join("(%s, %d)" % (_lean_field(f), p) for f, p in x)
    raise Fail("internal: segment kind %s" % kind)


_SNA_HEAD = """/- GENERATED by tools/extract.py from rustzx-core/src/emulator/snapshot/sna.rs (`save`, `load`) and
rustzx-core/src/zx/memory.rs (PAGE_SIZE). Do not edit. -/
namespace ZxVerif.Extracted.Sna

/-- what a byte of the file carries, named after the register accessor the source uses
(`zero`: the literal 0; `ignored`: read and dropped, or never looked at) -/
inductive Field
  | i | hl' | de' | bc' | af' | hl | de | bc | iy | ix | iff1 | iff2 | r | af | sp | im | border
  | pc | port7ffd | zero | ignored
  deriving DecidableEq, Repr

/-- a piece of the file after the header: one RAM bank, the bank mapped at `pagedAddr`, single bytes
(field, byte of the field), the listed banks in this order without the paged one -/
inductive Seg
  | bank (n : Nat) | paged | bytes (fs : List (Field × Nat)) | rest (banks : List Nat)
  deriving DecidableEq, Repr

/-- what `load` does with the file after the header: `seek(SeekFrom::Start(off))`, `read_exact` of a piece -/
inductive Op
  | seek (off : Nat) | read (s : Seg)
  deriving DecidableEq, Repr
"""

_SNA_FIELDS = {"i", "hl'", "de'", "bc'", "af'", "hl", "de", "bc", "iy", "ix", "iff1", "iff2", "r", "af", "sp", "im",
               "border", "pc", "port7ffd", "zero", "ignored"}


def sna_layout(repo):
    src = _Src(repo, SNA_RS)
    mem = _Src(repo, MEMORY_RS)
    if "PAGE_SIZE" not in mem.consts:
        raise Skip("PAGE_SIZE not found in %s" % MEMORY_RS)
    try:
        page = mem.value("PAGE_SIZE")
    except Fail as e:
        raise Skip(str(e))
    try:
        sv = _SnaSave(src)
        ld = _SnaLoad(src)
    except (Skip, Fail):
        raise
    except Exception as e:  # the functions are there but their text defeats the parser: loud, not dropped
        raise Fail("%s: save / load could not be parsed (%r)" % (SNA_RS, e))
    for f, _, _, _ in sv.header + ld.header:
        if f not in _SNA_FIELDS:
            raise Fail("%s: a header byte is used for `%s`, which is no SNA field" % (SNA_RS, f))
    t = [_SNA_HEAD]
    t.append("/-- `PAGE_SIZE` -/")
    t.append("def pageSize : Nat := %d" % page)
    t.append("")
    t.append("/-! ### `save` -/")
    t.append("/-- length of the header array `save` fills and writes first -/")
    t.append("def saveHeaderSize : Nat := %d" % sv.header_size)
    t += _lean_bytes("saveBytes", "every `header[k] = ..` of `save`, by offset", sv.header)
    t += _lean_fields("saveFields", "the same, the bytes of a register put together", sv.header)
    t.append("/-- the 48K writer stores SP less this (PC goes below it in the written image) -/")
    t.append("def saveSpDelta48 : Nat := %d" % sv.sp_delta48)
    t.append("/-- the pieces `save` writes after the header on the 48K / on the 128K, in order -/")
    t.append("def save48 : List Seg := [%s]" % ", ".join(_lean_seg(k, x) for k, x in sv.seg48))
    t.append("def save128 : List Seg := [%s]" % ", ".join(_lean_seg(k, x) for k, x in sv.seg128))
    t.append("/-- the address whose page is `paged` (as `save` sees it) -/")
    t.append("def savePagedAddr : Nat := 0x%04X" % (sv.paged_addr if sv.paged_addr is not None else 0))
    t.append("")
    t.append("/-! ### `load` -/")
    t.append("def loadHeaderSize : Nat := %d" % ld.header_size)
    t.append("/-- file offset the header is read from -/")
    t.append("def loadHeaderAt : Nat := %d" % ld.header_at)
    t += _lean_bytes("loadBytes", "which header byte every register is loaded from when `load` returns "
                     "(EXX / EX AF,AF' followed through), by offset", ld.header)
    t += _lean_fields("loadFields", "the same, the bytes of a register put together", ld.header)
    t.append("/-- `header[offset] & mask > max` is rejected: (offset, mask, max) -/")
    t.append("def loadLimits : List (Nat × Nat × Nat) := [%s]" % ", ".join(
        "(%d, 0x%02X, %d)" % (i, m, n) for _, i, m, n in ld.im_limit))
    t.append("/-- a file longer than this is a 128K file; a shorter one than `loadMinSize` is rejected -/")
    t.append("def loadIs128Above : Nat := %d" % ld.is128_above)
    t.append("def loadMinSize : Nat := %d" % (ld.min_size if ld.min_size is not None else 0))
    t.append("/-- what `load` does after the header on the 48K / on the 128K, in order -/")

    def op(o):
        return ".seek %d" % o[1] if o[0] == "seek" else ".read (%s)" % _lean_seg(*o[1])
    t.append("def load48 : List Op := [%s]" % ", ".join(op(o) for o in ld.ops48))
    t.append("def load128 : List Op := [%s]" % ", ".join(op(o) for o in ld.ops128))
    t.append("/-- PC is popped from the loaded stack at the end -/")
    t.append("def load48PopsPc : Bool := %s" % ("true" if ld.pops_pc48 else "false"))
    t.append("def load128PopsPc : Bool := %s" % ("true" if ld.pops_pc128 else "false"))
    t.append("def loadPagedAddr : Nat := 0x%04X" % (ld.paged_addr if ld.paged_addr is not None else 0))
    t += ["", "end ZxVerif.Extracted.Sna"]
    return "\n".join(t) + "\n"


# ---- szx.rs ---------------------------------------------------------------------------------------

def _rust_str(lit, at):
    """bytes of a Rust string literal body (ASCII with \\0 \\n \\r \\t \\\\ \\" \\xNN escapes)"""
    out, k = [], 0
    simple = {"0": 0, "n": 10, "r": 13, "t": 9, "\\": 92, '"': 34, "'": 39}
    while k < len(lit):
        c = lit[k]
        if c != "\\":
            if ord(c) > 127:
                raise Fail("%s: non-ASCII string literal" % at)
            out.append(ord(c))
            k += 1
        elif k + 1 < len(lit) and lit[k + 1] in simple:
            out.append(simple[lit[k + 1]])
            k += 2
        elif lit[k + 1:k + 2] == "x" and re.fullmatch(r"[0-9A-Fa-f]{2}", lit[k + 2:k + 4]):
            out.append(int(lit[k + 2:k + 4], 16))
            k += 4
        else:
            raise Fail("%s: string escape the extractor does not know: `%s`" % (at, lit))
    return out


class _ChunkReads(_Reads):
    """`_Reads` plus the statement shapes of the smaller process_*_block functions"""

    def _scan(self):
        self.flag_masks, self.slice_list = [], []
        self.remap, self.below = [], []
        _Reads._scan(self)

    def _unconsumed_check(self):
        self.extra()
        _Reads._unconsumed_check(self)

    def extra(self):
        b = self.b
        wl = self.misc.get("word_locals", {})
        for m in re.finditer(r"(?<![\w.])(\w+)&(\w+)(?:!=0|==0|>0)", b.t):
            name = m.group(1)
            if name in self.byte_locals:
                self._flags_local(name, m.start())
            elif name in wl:
                if name not in self.consumed:
                    lo, hi, _ = wl[name]
                    self.entries += [("flags", 0, lo[0], lo[1], 0xFF), ("flags", 1, hi[0], hi[1], 0xFF)]
                    self.consumed.add(name)
            else:
                continue
            v = b.value(m.group(2), m.start())
            if v not in self.flag_masks:
                self.flag_masks.append(v)
        for m in re.finditer(r"select_reg\((\w+)\)", b.t):
            if m.group(1) in self.byte_locals:
                arr, i, _ = self.byte_locals[m.group(1)]
                self.entries.append(("reg", 0, arr, i, 0xFF))
                self.consumed.add(m.group(1))
        for m in re.finditer(r"ram_page_data_mut\((\w+)\)", b.t):
            if m.group(1) in self.byte_locals:
                arr, i, _ = self.byte_locals[m.group(1)]
                self.entries.append(("pageNo", 0, arr, i, 0xFF))
                self.consumed.add(m.group(1))
        for m in re.finditer(r"(?<![\w.])(\w+)\[([^\]\[.]*)\.\.([^\]\[.]*)\]", b.t):
            if m.group(1) in self.arrays:
                self.slice_list.append((b.value(m.group(2) or "0", m.start()),
                                        b.value(m.group(3), m.start()) if m.group(3) else None, m.start()))
                b.use(m)
        for m in re.finditer(r"if (\w+)<(\w+)\{", b.t):
            self.below.append((m.group(1), b.value(m.group(2), m.start()), m.start()))
        for m in re.finditer(r"(\w+)=match \1\{((?:\w+=>\w+,)+)_=>\1,?\};?", b.t):
            if m.group(1) in self.byte_locals:
                self.remap = [(b.value(x, m.start()), b.value(y, m.start()))
                              for x, y in re.findall(r"(\w+)=>(\w+),", m.group(2))]
        # locals starting with `_` that the dword / word patterns bound are plain ignored reads
        for name, (s, k) in self.misc.get("dword_locals", {}).items():
            if name.startswith("_"):
                self.entries += [("ignored", 0, a, i, 0xFF) for a, i in s]
            else:
                raise Fail("%s: fn %s reads a 32-bit value into `%s`; the extractor cannot tell what for"
                           % (b.where(k), b.name, name))
        for name, (lo, hi, k) in wl.items():
            if name not in self.consumed:
                if name.startswith("_"):
                    self.entries += [("ignored", 0, lo[0], lo[1], 0xFF), ("ignored", 0, hi[0], hi[1], 0xFF)]
                else:
                    raise Fail("%s: fn %s reads a 16-bit value into `%s`; the extractor cannot tell what for"
                               % (b.where(k), b.name, name))


def _chunk(src, handler):
    b = _Body(src, "process_%s_block" % handler)
    m = re.search(r"(\w+):&\[u8\]", b.sig)
    if not m:
        raise Skip("process_%s_block: no `&[u8]` parameter" % handler)
    arr = m.group(1)
    mid = re.search(r"(\w+):u32", b.sig)

    r = _ChunkReads(b, {arr})
    r.finish()
    b.account(arr)
    r.arr, r.mid = arr, mid.group(1) if mid else None
    return r


_SZX_HEAD = """/- GENERATED by tools/extract.py from rustzx-core/src/emulator/snapshot/szx.rs (`load`, the
`process_*_block` functions, `decompress_zlib_stream`) and rustzx-core/src/zx/memory.rs (PAGE_SIZE).
Do not edit. -/
namespace ZxVerif.Extracted.Szx

/-- what a byte of a chunk is used for, named after the setter the source feeds it to
(`flags`: a byte / word that is only tested bit by bit; `reg`: AY register selection;
`ignored`: read and dropped) -/
inductive Field
  | af | bc | de | hl | af' | bc' | de' | hl' | ix | iy | sp | pc | i | r | iff1 | iff2 | im
  | cyclesStart | flags | memptr | border | port7ffd | portFe | reg | pageNo | ignored
  deriving DecidableEq, Repr

/-- the `process_*_block` function a chunk id is dispatched to -/
inductive Handler
  | crtr | z80r | spcr | ay | keyb | amxm | ramp
  deriving DecidableEq, Repr

/-- what a tested bit of the Z80R `chFlags` byte sets -/
inductive ZFlag
  | eiLast | halted | fSet
  deriving DecidableEq, Repr
"""

_SZX_FIELDS = ["af", "bc", "de", "hl", "af'", "bc'", "de'", "hl'", "ix", "iy", "sp", "pc", "i", "r", "iff1", "iff2", "im",
               "cyclesStart", "flags", "memptr", "border", "port7ffd", "portFe", "reg", "pageNo", "ignored"]
_SZX_HANDLERS = ["crtr", "z80r", "spcr", "ay", "keyb", "amxm", "ramp"]


def _szx_load(src):
    b = _Body(src, "load")
    out = {}
    arrs = {m.group(1): b.value(m.group(2), m.start()) for m in re.finditer(r"let mut (\w+)=\[0u8;([^\]]+)\];", b.t)}
    first = re.search(r"asset\.read_exact\(&mut (\w+)\)\?;", b.t)
    loop = re.search(r"while asset\.read_exact\(&mut (\w+)\)\.is_ok\(\)\{", b.t)
    if not first or not loop or first.group(1) not in arrs or loop.group(1) not in arrs:
        raise Skip("load: file header / block header arrays not found")
    hdr, bh = first.group(1), loop.group(1)
    out["headerSize"], out["blockHeaderSize"] = arrs[hdr], arrs[bh]
    # byte-array locals: magic (over the file header) and chunk id (over the block header)
    groups = {}
    for m in re.finditer(r"let (\w+)=&\[((?:%s,?)+)\];" % _A, b.t):
        items = re.findall(_A, m.group(2))
        if len({a for a, _ in items}) == 1 and items[0][0] in (hdr, bh):
            groups.setdefault(items[0][0], []).append((m.group(1), [b.value(i, m.start()) for _, i in items], m.start()))
            b.use(m)
    if len(groups.get(hdr, [])) != 1 or len(groups.get(bh, [])) != 1:
        raise Skip("load: the magic / chunk id byte arrays not found")
    name, out["magicOffsets"], k = groups[hdr][0]
    if "from_utf8(%s)" % name not in b.t:
        raise Fail("%s: load: `%s` is not what the magic string is made of" % (b.where(k), name))
    lits = list(re.finditer(r"\.eq\(\"((?:[^\"\\]|\\.)*)\"\)|[!=]=\"((?:[^\"\\]|\\.)*)\"", b.t))
    if len(lits) != 1:
        raise Fail("%s: load: %d string comparisons; cannot tell which one tests the magic" % (b.where(0), len(lits)))
    out["magic"] = _rust_str(lits[0].group(1) if lits[0].group(1) is not None else lits[0].group(2), b.where(lits[0].start()))
    name, out["idOffsets"], k = groups[bh][0]
    d = re.search(r"let (\w+)=match from_utf8\(%s\)\{Ok\((\w+)\)=>\2(\.to_uppercase\(\))?," % name, b.t)
    if not d:
        raise Fail("%s: load: cannot follow the chunk id bytes `%s` to the dispatch" % (b.where(k), name))
    idvar, out["idCaseFold"] = d.group(1), bool(d.group(3))
    sizes = list(re.finditer(r"u32::from_(le|be)_bytes\(\[%s,%s,%s,%s,?\]\)" % (_A, _A, _A, _A), b.t))
    sizes = [m for m in sizes if {m.group(g) for g in (2, 4, 6, 8)} == {bh}]
    if len(sizes) != 1:
        raise Fail("%s: load: the chunk size is not one `u32::from_le_bytes` over the block header" % b.where(loop.start()))
    so = [b.value(sizes[0].group(g), sizes[0].start()) for g in (3, 5, 7, 9)]
    out["sizeOffsets"] = so if sizes[0].group(1) == "le" else so[::-1]
    b.use(sizes[0])
    # machine id
    m = re.search(r"let (\w+)=%s\[([^\]]+)\]as u32;" % re.escape(hdr), b.t)
    if not m:
        raise Skip("load: `let machine_id = header[k] as u32` not found")
    midv, out["machineIdOffset"] = m.group(1), b.value(m.group(2), m.start())
    b.use(m)
    out["headerIgnored"] = []
    for m in re.finditer(r"let _\w*=%s\[([^\]]+)\];" % re.escape(hdr), b.t):
        out["headerIgnored"].append(b.value(m.group(1), m.start()))
        b.use(m)
    m = re.search(r"if %s>(\w+)\{return Err\(SnapshotLoadError::MachineNotSupported" % midv, b.t)
    out["midRejectAbove"] = b.value(m.group(1), m.start()) if m else None
    m = re.search(r"if\(%s==(\w+)\)!=\(emulator\.settings\.machine==ZXMachine::Sinclair128K\)\{return Err\("
                  r"SnapshotLoadError::MachineNotSupported" % midv, b.t)
    out["mid128"] = b.value(m.group(1), m.start()) if m else None
    if out["midRejectAbove"] is None and out["mid128"] is None:
        raise Fail("%s: load: cannot classify what the machine id `%s` is tested against" % (b.where(0), midv))
    b.account(hdr)
    b.account(bh)
    # the dispatch
    m = re.search(r"match %s\.as_str\(\)\{" % idvar, b.t)
    if not m:
        raise Skip("load: `match id_str.as_str()` not found")
    s, e = b.block_after(m.end() - 1)
    k, arms = s, []
    while k < e:
        am = re.compile(r"(#\[cfg\([^\]]*\)\])?(\"(?:[^\"\\]|\\.)*\"|_)=>").match(b.t, k)
        if not am:
            raise Fail("%s: load: a `match` arm over the chunk id the extractor cannot read: `%s`" % (b.where(k), b.t[k:k + 40]))
        k = am.end()
        if b.t[k] == "{":
            z = _match(b.t, k)
            body = b.t[k + 1:z]
            k = z + 1
            if k < e and b.t[k] == ",":
                k += 1
        else:
            z = b.t.find(",", k, e)
            z = e if z < 0 else z
            body = b.t[k:z]
            k = z + 1
        if am.group(2) == "_":
            if body not in ("()", ""):
                raise Fail("%s: load: the default arm of the chunk dispatch does something: `%s`" % (b.where(am.start()), body))
            continue
        cm = re.fullmatch(r"process_(\w+)_block\(([^()]*)\)\?;", body)
        if not cm or cm.group(1) not in _SZX_HANDLERS:
            raise Fail("%s: load: cannot classify what chunk %s is dispatched to: `%s`" % (b.where(am.start()), am.group(2), body[:50]))
        arms.append((_rust_str(am.group(2)[1:-1], b.where(am.start())), cm.group(1), midv in cm.group(2).split(",")))
    ids = [tuple(a[0]) for a in arms]
    if len(set(ids)) != len(ids):
        raise Fail("%s: load: two arms of the chunk dispatch have the same id" % b.where(s))
    # string patterns are distinct, so the order of the arms means nothing: canonical order
    arms.sort(key=lambda a: _SZX_HANDLERS.index(a[1]))
    out["chunks"] = arms
    return out


def szx_layout(repo):
    src = _Src(repo, SZX_RS)
    mem = _Src(repo, MEMORY_RS)
    if "PAGE_SIZE" not in mem.consts:
        raise Skip("PAGE_SIZE not found in %s" % MEMORY_RS)
    try:
        page = mem.value("PAGE_SIZE")
    except Fail as e:
        raise Skip(str(e))
    try:
        ld = _szx_load(src)
        ch = {h: _chunk(src, h) for _, h, _ in ld["chunks"]}
        for h in ("z80r", "spcr"):
            if h not in ch:
                raise Skip("chunk dispatch has no arm for process_%s_block" % h)
    except (Skip, Fail):
        raise
    except Exception as e:  # the functions are there but their text defeats the parser: loud, not dropped
        raise Fail("%s: load / process_*_block could not be parsed (%r)" % (SZX_RS, e))
    t = [_SZX_HEAD]

    def nat(name, v, doc=None):
        if doc:
            t.append("/-- %s -/" % doc)
        t.append("def %s : Nat := %d" % (name, v))

    def nats(name, vs, doc=None):
        if doc:
            t.append("/-- %s -/" % doc)
        t.append("def %s : List Nat := [%s]" % (name, ", ".join(map(str, vs))))

    def opt(v):
        return "none" if v is None else "some %d" % v
    nat("pageSize", page, "`PAGE_SIZE`")
    t += ["", "/-! ### `load`: file header, block header, dispatch -/"]
    nat("headerSize", ld["headerSize"])
    nat("blockHeaderSize", ld["blockHeaderSize"])
    t.append("/-- the string the first bytes of the file are compared with, and their offsets -/")
    t.append("def magic : List Nat := [%s]" % ", ".join("0x%02X" % x for x in ld["magic"]))
    nats("magicOffsets", ld["magicOffsets"])
    nat("machineIdOffset", ld["machineIdOffset"])
    nats("headerIgnored", ld["headerIgnored"], "header bytes read and dropped (version numbers)")
    t.append("/-- machine ids above this are rejected; this id is the 128K (every smaller one loads as a 48K) -/")
    t.append("def midRejectAbove : Option Nat := %s" % opt(ld["midRejectAbove"]))
    t.append("def mid128 : Option Nat := %s" % opt(ld["mid128"]))
    nats("idOffsets", ld["idOffsets"], "block header: the four id bytes, the size (least significant byte first)")
    nats("sizeOffsets", ld["sizeOffsets"])
    t.append("/-- chunk ids are upper-cased before the comparison -/")
    t.append("def idCaseFold : Bool := %s" % ("true" if ld["idCaseFold"] else "false"))
    t.append("/-- the arms of the dispatch (their order means nothing: distinct string patterns): (id bytes, handler, the machine id is passed on) -/")
    t.append("def chunks : List (List Nat × Handler × Bool) := [")
    for n, (idb, h, mid) in enumerate(ld["chunks"]):
        t.append("  ([%s], .%s, %s)%s" % (", ".join("0x%02X" % x for x in idb), h, "true" if mid else "false",
                                         "," if n + 1 < len(ld["chunks"]) else ""))
    t.append("]")

    def table(h, r):
        ent = r.of(r.arr)
        for f, _, _, _ in ent:
            if f not in _SZX_FIELDS:
                raise Fail("%s: process_%s_block uses a byte for `%s`, which is no SZX field" % (SZX_RS, h, f))
        t.extend(_lean_bytes(h + "Bytes", "`process_%s_block`: every byte of the chunk it uses, by offset" % h, ent))
        t.extend(_lean_fields(h + "Fields", "the same, the bytes of a field put together", ent))
        nats(h + "MinLen", r.min_len.get(r.arr, []), "chunks shorter than this are rejected (`len() < n`, in source order)")
        t.append("/-- `data[offset] & mask > max` is rejected: (offset, mask, max) -/")
        t.append("def %sLimits : List (Nat × Nat × Nat) := [%s]" % (h, ", ".join(
            "(%d, 0x%02X, %d)" % (i, m, n) for a, i, m, n in r.limits if a == r.arr)))
    for h in _SZX_HANDLERS:
        if h not in ch:
            continue
        r = ch[h]
        t += ["", "/-! ### `process_%s_block` -/" % h]
        table(h, r)
        below = [v for n, v, _ in r.below if n == r.mid]
        if h == "z80r":
            t.append("/-- the bits of `chFlags` the function tests, and what each sets -/")
            t.append("def z80rFlagBits : List (ZFlag × Nat) := [%s]" % ", ".join(
                "(.%s, %d)" % fb for fb in sorted(r.flag_bits, key=lambda fb: ["eiLast", "halted", "fSet"].index(fb[0]))))
        else:
            nats(h + "FlagMasks", r.flag_masks, "masks the `flags` byte / word is tested with, in source order")
        if h == "spcr":
            order = sorted((k, f) for f, k in r.order.items())
            t.append("/-- the order in which the device-visible fields are applied -/")
            t.append("def spcrOrder : List Field := [%s]" % ", ".join("." + f for _, f in order))
            nat("spcrFePort", r.misc.get("io_port", 0), "the port `chFe` is written to")
        if h in ("spcr", "ay", "ramp"):
            nats(h + "Mid48Below", below, "machine ids below this are treated as 48K here")
        if h in ("ay", "ramp", "crtr"):
            t.append("/-- slices `data[from..to]` taken (`to` = none: to the end) -/")
            t.append("def %sSlices : List (Nat × Option Nat) := [%s]" % (h, ", ".join(
                "(%d, %s)" % (a, opt(z)) for a, z, _ in r.slice_list)))
        if h == "ramp":
            t.append("/-- page renumbering on a 48K machine id -/")
            t.append("def rampRemap : List (Nat × Nat) := [%s]" % ", ".join("(%d, %d)" % p for p in r.remap))
    # inflate limit
    lim = None
    for fn in re.finditer(r"decompress_to_vec_zlib_with_limit\s*\(\s*\w+\s*,\s*(\w+)\s*\)", src.text):
        lim = src.value(fn.group(1), src.where(fn.start()))
    t.append("")
    t.append("/-- size limit handed to the zlib inflater -/")
    t.append("def inflateLimit : Option Nat := %s" % opt(lim))
    t += ["", "end ZxVerif.Extracted.Szx"]
    return "\n".join(t) + "\n"


# <<< snapshot layouts

# ---------------------------------------------------------------------------------------------------
# VideoConsts / MixerConsts: constants *and expressions* of the video and sound devices, translated
# (C08, C09, C19). A small translator for the integer/Boolean expression subset of Rust and for
# straight-line function bodies (let / assignment / if / return) carries them into core Lean:
#   usize -> Nat, u8 -> BitVec 8, u16 -> BitVec 16, bool -> Bool; `a as T` -> toNat / ofNat / setWidth;
#   Rust operator precedence is resolved by the parser, the Lean text is fully parenthesised.
# Arithmetic that would panic in Rust (usize underflow, overflow) is outside the translation: Nat
# subtraction truncates, BitVec arithmetic wraps; the ranges the theorems quantify over exclude both.
# Not located -> Skip; located but not translatable -> Fail (loud; the generated file does not build).
# ---------------------------------------------------------------------------------------------------

_TOK = re.compile(r"""
    (?P<float>\d[\d_]*\.\d[\d_]*(?:_?f(?:32|64))?|\d[\d_]*_?f(?:32|64))
  | (?P<num>0[xX][0-9A-Fa-f_]+?(?:_?(?:u8|u16|u32|u64|usize|i32))?(?![0-9A-Za-z_])|\d[\d_]*?(?:_?(?:u8|u16|u32|u64|usize|i32))?(?![0-9A-Za-z_]))
  | (?P<id>[A-Za-z_]\w*(?:(?:::|\.)[A-Za-z_]\w*)*)
  | (?P<op><<=|>>=|<<|>>|<=|>=|==|!=|&&|\|\||\+=|-=|\*=|\^=|\|=|&=|\.\.=|\.\.|=>|->|[-+*/%&|^!<>=(){}\[\];,:.])
  | (?P<ws>\s+)
""", re.X)


def _tokens(text, where):
    out, i = [], 0
    while i < len(text):
        m = _TOK.match(text, i)
        if not m:
            raise Fail("%s: cannot tokenize `%s`" % (where, text[i:i + 30].split("\n")[0]))
        i = m.end()
        k = m.lastgroup
        if k != "ws":
            out.append((k, m.group(k)))
    return out


def _intlit(t):
    return int(re.sub(r"_?(u8|u16|u32|u64|usize|i32)$", "", t).replace("_", ""), 0)


_BINPREC = [["||"], ["&&"], ["==", "!=", "<", ">", "<=", ">="], ["|"], ["^"], ["&"], ["<<", ">>"], ["+", "-"], ["*", "/", "%"]]
_RTYPES = {"usize": "nat", "u32": "nat", "u8": "bv8", "u16": "bv16", "bool": "bool", "f64": "rat", "f32": "rat"}


class _P:
    """recursive-descent parser over a token list (Rust precedence: * / % > + - > << >> > & > ^ > | > cmp > && > ||)"""

    def __init__(self, toks, where):
        self.t, self.i, self.where = toks, 0, where

    def peek(self, k=0):
        return self.t[self.i + k] if self.i + k < len(self.t) else (None, None)

    def at(self, v):
        return self.peek()[1] == v

    def eat(self, v=None):
        k, x = self.peek()
        if k is None or (v is not None and x != v):
            raise Fail("%s: expected `%s`, found `%s`" % (self.where, v, x))
        self.i += 1
        return x

    def expr(self, lvl=0):
        if lvl == len(_BINPREC):
            return self.cast()
        e = self.expr(lvl + 1)
        while self.peek()[0] == "op" and self.peek()[1] in _BINPREC[lvl]:
            op = self.eat()
            e = ("bin", op, e, self.expr(lvl + 1))
        return e

    def cast(self):
        e = self.unary()
        while self.peek() == ("id", "as"):
            self.eat()
            e = ("cast", e, self.eat())
        return e

    def unary(self):
        k, x = self.peek()
        if x in ("!", "-") and k == "op":
            self.eat()
            return ("un", x, self.unary())
        if x == "(":
            self.eat()
            e = self.expr()
            if self.at(","):  # tuple
                items = [e]
                while self.at(","):
                    self.eat()
                    if self.at(")"):
                        break
                    items.append(self.expr())
                self.eat(")")
                return ("tuple", items)
            self.eat(")")
            return e
        if k == "num":
            self.eat()
            return ("num", _intlit(x))
        if k == "float":
            self.eat()
            return ("float", re.sub(r"_?f(32|64)$", "", x).replace("_", ""))
        if k == "id":
            self.eat()
            if self.at("("):  # call: only calls named in the environment are known
                self.eat()
                args = []
                while not self.at(")"):
                    args.append(self.expr())
                    if self.at(","):
                        self.eat()
                self.eat(")")
                return ("call", x, args)
            return ("var", x)
        raise Fail("%s: unexpected `%s` in an expression" % (self.where, x))


_LEANOP = {"+": "+", "-": "-", "*": "*", "/": "/", "%": "%", "<<": "<<<", ">>": ">>>", "&": "&&&", "|": "|||", "^": "^^^"}
_LEANTY = {"nat": "Nat", "bv8": "BitVec 8", "bv16": "BitVec 16", "bool": "Bool", "lit": "Nat"}


def _lean(e, env, where):
    """AST -> (fully parenthesised Lean text, type); env: rust name -> (lean text, type)"""
    k = e[0]
    if k == "num":
        return str(e[1]), "lit"
    if k == "var":
        if e[1] in ("true", "false"):
            return e[1], "bool"
        if e[1] not in env:
            raise Fail("%s: unknown identifier `%s`" % (where, e[1]))
        return env[e[1]]
    if k == "call":
        key = e[1] + "()"
        if key in env and not e[2]:
            return env[key]
        key = "%s(%d)" % (e[1], len(e[2]))
        if key in env:  # a known function of the environment: (Lean format, argument types, result type)
            fmt, targs, tret = env[key]
            args = []
            for x, want in zip(e[2], targs):
                a, ta = _lean(x, env, where)
                if ta == "lit":
                    a, ta = ("(%s : %s)" % (a, _LEANTY[want]), want) if want in _LEANTY else (a, ta)
                if ta != want:
                    raise Fail("%s: argument of `%s` has type %s (expected %s)" % (where, e[1], ta, want))
                args.append(a)
            return fmt % tuple(args), tret
        recv, _, meth = e[1].rpartition(".")
        if recv and len(e[2]) == 1 and meth in ("min", "max", "wrapping_add", "wrapping_sub"):
            a, ta = _lean(("var", recv), env, where)
            b, tb = _lean(e[2][0], env, where)
            if tb not in ("lit", ta):
                raise Fail("%s: `%s` on operands of types %s and %s" % (where, meth, ta, tb))
            if meth in ("min", "max") and ta == "nat":
                return "(%s %s %s)" % (meth, a, b), "nat"
            if meth.startswith("wrapping_") and ta in ("bv8", "bv16"):  # BitVec arithmetic wraps
                return "(%s %s %s)" % (a, "+" if meth == "wrapping_add" else "-", b), ta
        raise Fail("%s: unknown call `%s(..)`" % (where, e[1]))
    if k == "un":
        a, ta = _lean(e[2], env, where)
        if e[1] == "!" and ta == "bool":
            return "(!%s)" % a, "bool"
        raise Fail("%s: unary `%s` on a %s value" % (where, e[1], ta))
    if k == "cast":
        a, ta = _lean(e[1], env, where)
        to = _RTYPES.get(e[2])
        if to is None or to == "bool" or to == "rat" or ta in ("bool", "rat"):
            raise Fail("%s: cast `as %s` of a %s value" % (where, e[2], ta))
        if to == "nat":
            return (a, "nat") if ta in ("nat", "lit") else ("(%s).toNat" % a, "nat")
        w = 8 if to == "bv8" else 16
        if ta in ("nat",):
            return "(BitVec.ofNat %d %s)" % (w, a), to
        if ta == "lit":
            return "(%s : BitVec %d)" % (a, w), to
        return (a, to) if ta == to else ("((%s).setWidth %d)" % (a, w), to)
    if k == "bin":
        op = e[1]
        a, ta = _lean(e[2], env, where)
        b, tb = _lean(e[3], env, where)
        if op in ("&&", "||"):
            if ta != "bool" or tb != "bool":
                raise Fail("%s: `%s` on non-Boolean operands" % (where, op))
            return "(%s %s %s)" % (a, op, b), "bool"
        if op in ("<<", ">>"):
            if ta == "bool" or tb == "bool":
                raise Fail("%s: shift of/by a Boolean" % where)
            if tb in ("bv8", "bv16"):
                b = "(%s).toNat" % b
            return "(%s %s %s)" % (a, _LEANOP[op], b), ta
        # both operands of one type (a bare literal adapts to the other side)
        t = tb if ta == "lit" else ta
        if tb not in ("lit", t):
            raise Fail("%s: operands of `%s` have types %s and %s" % (where, op, ta, tb))
        if op in ("==", "!=", "<", ">", "<=", ">="):
            if t == "bool":
                if op not in ("==", "!="):
                    raise Fail("%s: ordering of Booleans" % where)
                return "(%s %s %s)" % (a, op, b), "bool"
            if t == "lit":
                a = "(%s : Nat)" % a
            if op in ("==", "!="):
                return "(%s %s %s)" % (a, op, b), "bool"
            return "(decide (%s %s %s))" % (a, {"<": "<", ">": ">", "<=": "≤", ">=": "≥"}[op], b), "bool"
        if t == "bool":
            if op == "^":
                return "(%s ^^ %s)" % (a, b), "bool"
            if op == "&":
                return "(%s && %s)" % (a, b), "bool"
            if op == "|":
                return "(%s || %s)" % (a, b), "bool"
            raise Fail("%s: `%s` on Booleans" % (where, op))
        return "(%s %s %s)" % (a, _LEANOP[op], b), t
    raise Fail("%s: cannot translate a %s here" % (where, k))


def _tr_expr(text, env, where):
    p = _P(_tokens(text, where), where)
    e = p.expr()
    if p.peek()[0] is not None:
        raise Fail("%s: trailing `%s` after expression `%s`" % (where, p.peek()[1], " ".join(text.split())))
    return _lean(e, env, where)


# ---- statements ------------------------------------------------------------------------------------

def _parse_block(p):
    """statements up to the closing `}` (not consumed) or the end of the tokens"""
    out = []
    while p.peek()[0] is not None and not p.at("}"):
        k, x = p.peek()
        if x in ("assert", "debug_assert") and p.peek(1)[1] == "!":
            p.eat(); p.eat(); p.eat("(")
            depth = 1
            while depth:
                y = p.eat()
                depth += (y == "(") - (y == ")")
            p.eat(";")
            continue
        if x == "let":
            p.eat()
            if p.at("["):  # let [l, h] = addr.to_le_bytes();
                p.eat()
                names = []
                while not p.at("]"):
                    names.append(p.eat())
                    if p.at(","):
                        p.eat()
                p.eat("]"); p.eat("=")
                src = p.eat()
                if not src.endswith(".to_le_bytes") or len(names) != 2:
                    raise Fail("%s: array pattern on something other than a u16 `.to_le_bytes()`" % p.where)
                p.eat("("); p.eat(")"); p.eat(";")
                out.append(("lebytes", names, src[:-len(".to_le_bytes")]))
                continue
            if p.at("mut"):
                p.eat()
            name = p.eat()
            if p.at(":"):
                p.eat(); p.eat()
            if p.at(";"):
                p.eat()
                continue
            p.eat("=")
            if p.peek()[0] == "id" and p.peek()[1].endswith(".specs") and p.peek(1)[1] == "(":
                p.eat(); p.eat("("); p.eat(")"); p.eat(";")   # let specs = self.machine.specs();
                if name != "specs":
                    raise Fail("%s: machine specs bound to `%s` (expected `specs`)" % (p.where, name))
                continue
            e = _parse_tail(p)
            p.eat(";")
            out.append(("let", name, e))
            continue
        if x == "return":
            p.eat()
            e = None if p.at(";") else _parse_tail(p)
            p.eat(";")
            out.append(("return", e))
            continue
        if x == "if":
            out.append(_parse_if(p))
            if p.at(";"):
                p.eat()
            continue
        if k == "id" and p.peek(1)[1] in ("=", "+=", "-=", "^=", "|=", "&="):
            name = p.eat(); op = p.eat()
            e = p.expr()
            p.eat(";")
            if op != "=":
                e = ("bin", op[0], ("var", name), e)
            out.append(("set", name, e))
            continue
        e = _parse_tail(p)
        if p.at(";"):
            raise Fail("%s: expression statement `%s ...;` is not translatable" % (p.where, x))
        out.append(("tail", e))
    return out


def _parse_if(p):
    p.eat("if")
    c = p.expr()
    p.eat("{")
    th = _parse_block(p)
    p.eat("}")
    el = []
    if p.at("else"):
        p.eat()
        if p.at("if"):
            el = [_parse_if(p)]
        else:
            p.eat("{")
            el = _parse_block(p)
            p.eat("}")
    return ("if", c, th, el)


def _parse_tail(p):
    """a value: expression, tuple, `Name { a, b }` / `Name { f: e }`, `Name::new(a, b)`, `if` expression"""
    if p.at("if"):
        return _parse_if(p)
    if p.peek()[0] == "id" and p.peek(1)[1] == "{" and p.peek()[1][0].isupper():
        p.eat(); p.eat("{")
        items = []
        while not p.at("}"):
            f = p.eat()
            if p.at(":"):
                p.eat()
                items.append((f, p.expr()))
            else:
                items.append((f, ("var", f)))
            if p.at(","):
                p.eat()
        p.eat("}")
        return ("struct", items)
    if p.peek()[0] == "id" and p.peek()[1].endswith("::new") and p.peek(1)[1] == "(":
        p.eat(); p.eat("(")
        items = []
        while not p.at(")"):
            items.append(p.expr())
            if p.at(","):
                p.eat()
        p.eat(")")
        return ("tuple", items)
    return p.expr()


def _lean_value(e, env, where, fields=None):
    if e[0] == "tuple":
        return "(%s)" % ", ".join(_lean(x, env, where)[0] for x in e[1])
    if e[0] == "struct":
        if fields is not None and [f for f, _ in e[1]] != fields:
            raise Fail("%s: struct literal with fields %s (expected %s)" % (where, [f for f, _ in e[1]], fields))
        return "(%s)" % ", ".join(_lean(x, env, where)[0] for _, x in e[1])
    if e[0] == "if":
        c, tc = _lean(e[1], env, where)
        if tc != "bool":
            raise Fail("%s: `if` on a non-Boolean" % where)
        return "(if %s then %s else %s)" % (c, _lean_stmts(e[2], env, where, "  ", fields).strip(),
                                             _lean_stmts(e[3], env, where, "  ", fields).strip())
    return _lean(e, env, where)[0]


def _vars_of(x):
    """every identifier occurring in a statement list / AST"""
    if isinstance(x, (list, tuple)):
        if len(x) == 2 and x[0] == "var" and isinstance(x[1], str):
            return {x[1]}
        out = set()
        for y in x:
            out |= _vars_of(y)
        return out
    return set()


def _lean_stmts(stmts, env, where, ind, fields=None):
    """continuation style: what follows an `if` statement is repeated in both branches, so assignments
    inside a branch are plain shadowing `let`s and an early `return` simply ends its branch"""
    if not stmts:
        raise Fail("%s: a path through the function ends without a value" % where)
    s, rest = stmts[0], stmts[1:]
    if s[0] == "lebytes":
        v, tv = _lean(("var", s[2]), env, where)
        if tv != "bv16":
            raise Fail("%s: to_le_bytes of a %s value" % (where, tv))
        env2 = dict(env)
        env2[s[1][0]] = (s[1][0], "bv8")
        env2[s[1][1]] = (s[1][1], "bv8")
        return ("%slet %s : BitVec 8 := (%s).setWidth 8\n%slet %s : BitVec 8 := ((%s) >>> 8).setWidth 8\n" % (
            ind, s[1][0], v, ind, s[1][1], v)) + _lean_stmts(rest, env2, where, ind, fields)
    if s[0] in ("let", "set"):
        if s[2][0] in ("tuple", "struct", "if"):
            raise Fail("%s: binding of a compound value to `%s`" % (where, s[1]))
        v, tv = _lean(s[2], env, where)
        env2 = dict(env)
        env2[s[1]] = (s[1], "nat" if tv == "lit" else tv)
        return "%slet %s : %s := %s\n" % (ind, s[1], _LEANTY[tv], v) + _lean_stmts(rest, env2, where, ind, fields)
    if s[0] == "return":
        if s[1] is None:
            raise Fail("%s: `return;` without a value" % where)
        return ind + _lean_value(s[1], env, where, fields) + "\n"
    if s[0] == "tail":
        if rest:
            raise Fail("%s: statements after the final expression" % where)
        return ind + _lean_value(s[1], env, where, fields) + "\n"
    if s[0] == "if":
        if not rest:
            return ind + _lean_value(s, env, where, fields) + "\n"
        c, tc = _lean(s[1], env, where)
        if tc != "bool":
            raise Fail("%s: `if` on a non-Boolean" % where)
        # a `let` local to a branch must not be seen by what follows the `if` (it would be, after duplication)
        local = {x[1] for blk in (s[2], s[3]) for x in blk if x[0] == "let"}
        local |= {n for blk in (s[2], s[3]) for x in blk if x[0] == "lebytes" for n in x[1]}
        leak = local & _vars_of(rest)
        if leak:
            raise Fail("%s: `%s` is declared inside a branch and a variable of that name is used after the `if`"
                       % (where, sorted(leak)[0]))
        return ("%sif %s then\n%s%selse\n%s" % (ind, c, _lean_stmts(s[2] + rest, env, where, ind + "  ", fields), ind,
                                                 _lean_stmts(s[3] + rest, env, where, ind + "  ", fields)))
    raise Fail("%s: statement kind %s" % (where, s[0]))


def _rust_fn(src, rel, name, nth=0):
    """(params text, return text, body text, line) of `fn name`; Skip when absent"""
    hits = [m for m in re.finditer(r"\bfn\s+%s\s*(?:<[^>]*>)?\s*\(" % name, src)]
    if len(hits) <= nth:
        raise Skip("fn %s not found in %s" % (name, rel))
    m = hits[nth]
    par = src.index("(", m.start())
    try:
        close = _match(src, par)
        mm = re.match(r"\s*(?:->\s*([^{;]+?))?\s*\{", src[close + 1:])
        if not mm:
            raise Skip("fn %s in %s has no body" % (name, rel))
        ob = close + 1 + mm.end() - 1
        return src[par + 1:close], (mm.group(1) or "").strip(), src[ob + 1:_match(src, ob)], src.count("\n", 0, m.start()) + 1
    except ValueError as e:
        raise Fail("%s: fn %s: %s" % (rel, name, e))


def _params_env(params, where):
    env, sig = {}, []
    for part in params.split(","):
        part = part.strip()
        if not part or part in ("self", "&self", "&mut self"):
            continue
        m = re.match(r"^(?:mut\s+)?(\w+)\s*:\s*([\w:]+)$", part)
        if not m:
            raise Fail("%s: parameter `%s`" % (where, part))
        n, ty = m.group(1), m.group(2)
        if ty in _RTYPES and _RTYPES[ty] != "rat":
            env[n] = (n, _RTYPES[ty])
            sig.append("(%s : %s)" % (n, _LEANTY[_RTYPES[ty]]))
        elif ty != "ZXMachine":
            raise Fail("%s: parameter `%s` of type %s" % (where, n, ty))
    return env, sig


def _tr_fn(src, rel, name, lean_name, ret_lean, base_env, extra_sig=(), fields=None, doc=None, nth=0):
    params, ret, body, line = _rust_fn(src, rel, name, nth)
    where = "%s:%d (fn %s)" % (rel, line, name)
    try:
        env = dict(base_env)
        penv, sig = _params_env(params, where)
        env.update(penv)
        p = _P(_tokens(body, where), where)
        stmts = _parse_block(p)
        if p.peek()[0] is not None:
            raise Fail("%s: unbalanced `}`" % where)
        text = _lean_stmts(stmts, env, where, "  ", fields)
    except Fail:
        raise
    except Exception as e:
        raise Fail("%s: could not be parsed (%r)" % (where, e))
    head = "/-- `%s` (%s:%d)%s -/\n" % (name, rel, line, (": " + doc) if doc else "")
    return head + "def %s %s : %s :=\n%s" % (lean_name, " ".join(list(extra_sig) + sig), ret_lean, text)


def _const_table(src, rel, wanted):
    """`const NAME: T = expr;` of integer type -> Lean defs in dependency order; Skip if a wanted one is missing"""
    found = {}
    for m in re.finditer(r"\bconst\s+(\w+)\s*:\s*(\w+)\s*=\s*([^;]*);", src):
        if m.group(2) in ("usize", "u8", "u16"):
            found[m.group(1)] = (m.group(2), m.group(3), src.count("\n", 0, m.start()) + 1)
    for w in wanted:
        if w not in found:
            raise Skip("const %s not found in %s" % (w, rel))
    env, lines, done = {}, [], set()

    def emit(n, stack=()):
        if n in done:
            return
        if n in stack:
            raise Fail("%s: cyclic constant %s" % (rel, n))
        ty, text, line = found[n]
        where = "%s:%d (const %s)" % (rel, line, n)
        for kind, tok in _tokens(text, where):
            if kind == "id" and tok in found:
                emit(tok, stack + (n,))
        v, tv = _tr_expr(text, env, where)
        t = _RTYPES[ty]
        if tv not in ("lit", t):
            raise Fail("%s: declared %s, expression has type %s" % (where, ty, tv))
        lines.append("def %s : %s := %s" % (n, _LEANTY[t], v))
        env[n] = (n, t)
        done.add(n)
    for n in found:
        try:
            emit(n)
        except Fail:
            if n in wanted:
                raise
    for w in wanted:
        if w not in done:
            raise Fail("%s: const %s could not be translated" % (rel, w))
    return env, lines


_GEOM_RAW = [("clocks_first_pixel", 1), ("clocks_ula_read_shift", 1), ("clocks_ula_beam_shift", 1), ("clocks_row", 4), ("lines", 4)]
_GEOM_FIELDS = ["clocks_first_pixel", "clocks_ula_read_shift", "clocks_ula_beam_shift", "clocks_left_border",
                "clocks_screen_row", "clocks_right_border", "clocks_retrace", "clocks_line", "lines_vsync",
                "lines_top_border", "lines_screen", "lines_bottom_border", "lines_all", "clocks_frame",
                "clocks_ula_read_origin"]


def _geometry(repo):
    """the per-machine numbers the renderers use, with the derivations of ZXSpecsBuilder translated"""
    rel_m, rel_s = "rustzx-core/src/zx/machine/mod.rs", "rustzx-core/src/zx/machine/specs.rs"
    src = strip_comments(read(repo, rel_m))
    specs = blank_comments(read(repo, rel_s))
    t = ["/-- the arguments of the `ZXSpecsBuilder` chain of one machine that the video devices depend on -/",
         "structure Geom where"]
    for fn, n in _GEOM_RAW:
        for i in range(n):
            t.append("  %s_%d : Nat" % (fn, i))
    t.append("")
    fields = {}
    order = []
    for fn, n in _GEOM_RAW:
        params, _, body, line = _rust_fn(specs, rel_s, fn)
        where = "%s:%d (fn %s)" % (rel_s, line, fn)
        names = [re.match(r"^(?:mut\s+)?(\w+)\s*:", p.strip()).group(1) for p in params.split(",")
                 if p.strip() and "self" not in p.split(":")[0]]
        if len(names) != n:
            raise Fail("%s: %d parameters, expected %d" % (where, len(names), n))
        env = {nm: ("g.%s_%d" % (fn, i), "nat") for i, nm in enumerate(names)}
        for m in re.finditer(r"self\.specs\.(\w+)\s*=\s*([^;]*);", body):
            if m.group(1) in fields:
                raise Fail("%s: field %s assigned twice" % (where, m.group(1)))
            fields[m.group(1)] = _tr_expr(m.group(2), env, where)[0]
            order.append(m.group(1))
    params, _, body, line = _rust_fn(specs, rel_s, "build")
    where = "%s:%d (fn build)" % (rel_s, line)
    for m in re.finditer(r"self\.specs\.(\w+)\s*=\s*([^;]*);", body):
        if m.group(1) in fields:
            raise Fail("%s: field %s assigned twice" % (where, m.group(1)))
        env = {"self.specs." + f: ("g.%s" % f, "nat") for f in order}
        try:
            fields[m.group(1)] = _tr_expr(" ".join(m.group(2).split()), env, where)[0]
        except Fail:
            if m.group(1) in _GEOM_FIELDS:
                raise
            continue
        order.append(m.group(1))
    for f in _GEOM_FIELDS:
        if f not in fields:
            raise Skip("ZXSpecs.%s is not set by the builder any more" % f)
    for f in order:
        if f in _GEOM_FIELDS:
            t.append("/-- `ZXSpecs::%s` as `ZXSpecsBuilder` derives it -/" % f)
            t.append("def Geom.%s (g : Geom) : Nat := %s" % (f, fields[f]))
    t.append("")
    for name, lean in (("SPECS_48K", "geom48"), ("SPECS_128K", "geom128")):
        m = re.search(r"static\s+ref\s+%s\s*:\s*ZXSpecs\s*=\s*\{(.*?)\.build\(\)" % name, src, flags=re.S)
        if not m:
            raise Skip("%s builder chain not found" % name)
        vals = []
        for fn, n in _GEOM_RAW:
            mm = re.findall(r"\.%s\(\s*([^)]*?)\s*\)" % fn, m.group(1), flags=re.S)
            if len(mm) != 1:
                raise Skip("%s.%s(..) found %d times" % (name, fn, len(mm)))
            args = [a.strip() for a in mm[0].split(",") if a.strip()]
            if len(args) != n or not all(re.fullmatch(r"[0-9_]+|0x[0-9A-Fa-f_]+", a) for a in args):
                raise Fail("%s: %s.%s(%s): expected %d integer literals" % (rel_m, name, fn, mm[0], n))
            vals += ["%s_%d := %d" % (fn, i, num(a)) for i, a in enumerate(args)]
        t.append("def %s : Geom := { %s }" % (lean, ", ".join(vals)))
    t.append("")
    return t


_COLOURS = ["Black", "Blue", "Red", "Purple", "Green", "Cyan", "Yellow", "White"]


def _body_field(body, field, where):
    """text of `field: <expr>` inside a struct literal, up to the top-level comma"""
    m = re.search(r"\b%s\s*:" % field, body)
    if not m:
        raise Fail("%s: field `%s` not initialised" % (where, field))
    i, depth = m.end(), 0
    while i < len(body):
        c = body[i]
        if c in "([{":
            depth += 1
        elif c in ")]}":
            if depth == 0:
                break
            depth -= 1
        elif c == "," and depth == 0:
            break
        i += 1
    return body[m.end():i].strip()


def _colors(repo, t):
    rel = "rustzx-core/src/zx/video/colors.rs"
    src = blank_comments(read(repo, rel))
    m = re.search(r"\benum\s+ZXColor\s*\{(.*?)\}", src, flags=re.S)
    mb = re.search(r"\benum\s+ZXBrightness\s*\{(.*?)\}", src, flags=re.S)
    if not m or not mb:
        raise Skip("enum ZXColor / ZXBrightness not found in %s" % rel)
    disc = re.findall(r"(\w+)\s*=\s*(\d+)", m.group(1))
    names = [x.strip() for x in m.group(1).split(",") if x.strip()]
    if len(disc) != len(names):
        raise Fail("%s: enum ZXColor has variants without an explicit discriminant" % rel)
    disc = {a: int(b) for a, b in disc}
    bdisc = dict((a, int(b)) for a, b in re.findall(r"(\w+)\s*=\s*(\d+)", mb.group(1)))
    if set(bdisc) != {"Normal", "Bright"}:
        raise Fail("%s: enum ZXBrightness has variants %s" % (rel, sorted(bdisc)))
    _, _, fb, line = _rust_fn(src, rel, "from_bits")
    arms = re.findall(r"(\d+)\s*=>\s*ZXColor::(\w+)", fb)
    if not arms or any(n not in disc for _, n in arms):
        raise Fail("%s:%d: from_bits: arms %s" % (rel, line, arms))
    mi = re.search(r"impl\s+From<ZXColor>\s+for\s+u8\s*\{", src)
    if not mi:
        raise Skip("impl From<ZXColor> for u8 not found")
    back = re.findall(r"ZXColor::(\w+)\s*=>\s*(\d+)", src[mi.end():_match(src, mi.end() - 1)])
    t.append("/-- `enum ZXColor`: variant names in discriminant order -/")
    t.append("def colourNames : List String := [%s]" % ", ".join('"%s"' % n for n in sorted(disc, key=lambda n: disc[n])))
    t.append("/-- `enum ZXColor`: the discriminants, sorted -/")
    t.append("def colourDiscriminants : List Nat := [%s]" % ", ".join(str(v) for v in sorted(disc.values())))
    t.append("/-- `ZXColor::from_bits`: (bits, discriminant of the variant returned), in source order -/")
    t.append("def colourFromBits : List (Nat × Nat) := [%s]" % ", ".join("(%s, %d)" % (b, disc[n]) for b, n in arms))
    t.append("/-- `impl From<ZXColor> for u8`: (discriminant of the variant, byte), in source order -/")
    t.append("def colourToByte : List (Nat × Nat) := [%s]" % ", ".join("(%d, %s)" % (disc[n], b) for n, b in back if n in disc))
    t.append("/-- `enum ZXBrightness`: (Normal, Bright) -/")
    t.append("def brightnessDiscriminants : Nat × Nat := (%d, %d)" % (bdisc["Normal"], bdisc["Bright"]))
    t.append("")
    _, _, body, line = _rust_fn(src, rel, "from_byte")
    where = "%s:%d (fn from_byte)" % (rel, line)
    env = {"data": ("data", "bv8")}
    for field, lean in (("ink", "attrInk"), ("paper", "attrPaper")):
        txt = _body_field(body, field, where)
        mm = re.match(r"^ZXColor::from_bits\s*\((.*)\)$", txt, flags=re.S)
        if not mm:
            raise Fail("%s: `%s: %s` is not a ZXColor::from_bits(..) call" % (where, field, " ".join(txt.split())))
        v, tv = _tr_expr(mm.group(1), env, where)
        if tv != "bv8":
            raise Fail("%s: %s bits have type %s" % (where, field, tv))
        t.append("/-- `ZXAttribute::from_byte`: the bits handed to `ZXColor::from_bits` for `%s` -/" % field)
        t.append("def %s (data : BitVec 8) : BitVec 8 := %s" % (lean, v))
    v, tv = _tr_expr(_body_field(body, "flash", where), env, where)
    if tv != "bool":
        raise Fail("%s: flash has type %s" % (where, tv))
    t.append("/-- `ZXAttribute::from_byte`: `flash` -/")
    t.append("def attrFlash (data : BitVec 8) : Bool := %s" % v)
    txt = _body_field(body, "brightness", where)
    mm = re.match(r"^if\s+(.*?)\s*\{\s*ZXBrightness::(\w+)\s*\}\s*else\s*\{\s*ZXBrightness::(\w+)\s*\}$", txt, flags=re.S)
    if not mm or {mm.group(2), mm.group(3)} != {"Bright", "Normal"}:
        raise Fail("%s: `brightness: %s` is not an if/else between Bright and Normal" % (where, " ".join(txt.split())))
    v, tv = _tr_expr(mm.group(1), env, where)
    if tv != "bool":
        raise Fail("%s: brightness condition has type %s" % (where, tv))
    t.append("/-- `ZXAttribute::from_byte`: `brightness == Bright` -/")
    t.append("def attrBright (data : BitVec 8) : Bool := %s" % (v if mm.group(2) == "Bright" else "(!%s)" % v))
    _, _, body, line = _rust_fn(src, rel, "active_color")
    where = "%s:%d (fn active_color)" % (rel, line)
    mm = re.match(r"^\s*if\s+(.*?)\s*\{\s*self\.(ink|paper)\s*\}\s*else\s*\{\s*self\.(ink|paper)\s*\}\s*$", body, flags=re.S)
    if not mm or mm.group(2) == mm.group(3):
        raise Fail("%s: body is not an if/else between self.ink and self.paper" % where)
    env = {"state": ("state", "bool"), "self.flash": ("flash", "bool"), "enable_flash": ("enableFlash", "bool")}
    v, tv = _tr_expr(mm.group(1), env, where)
    if tv != "bool":
        raise Fail("%s: condition has type %s" % (where, tv))
    t.append("/-- `ZXAttribute::active_color`: true = ink, false = paper -/")
    t.append("def activeIsInk (state flash enableFlash : Bool) : Bool := %s" % (v if mm.group(2) == "ink" else "(!%s)" % v))
    t.append("")


def _palette(repo, t):
    rel = "rustzx-utils/src/palette.rs"
    src = blank_comments(read(repo, rel))
    m = re.search(r"\bconst\s+ORIGINAL\s*:\s*\[\s*\[\s*u8\s*;\s*4\s*\]\s*;\s*16\s*\]\s*=\s*\[(.*?)\]\s*;", src, flags=re.S)
    if not m:
        raise Skip("palette::rgba::ORIGINAL not found in %s" % rel)
    body = m.group(1)
    vals = []
    for item in re.finditer(r"(0[xX][0-9A-Fa-f_]+?)_?u32\s*\.\s*to_be_bytes\s*\(\s*\)|\[\s*([^\]]*?)\s*\]", body):
        if item.group(1):
            vals.append(num(item.group(1)))
        else:
            bs = [num(x) for x in item.group(2).split(",") if x.strip()]
            if len(bs) != 4 or any(b > 255 for b in bs):
                raise Fail("%s: palette entry [%s]" % (rel, item.group(2)))
            vals.append((bs[0] << 24) | (bs[1] << 16) | (bs[2] << 8) | bs[3])
    leftover = re.sub(r"(0[xX][0-9A-Fa-f_]+?)_?u32\s*\.\s*to_be_bytes\s*\(\s*\)|\[\s*([^\]]*?)\s*\]|[\s,]", "", body)
    if len(vals) != 16 or leftover:
        raise Fail("%s: ORIGINAL has %d recognisable entries (rest: `%s`)" % (rel, len(vals), leftover[:30]))
    t.append("/-- `rustzx_utils::palette::rgba::ORIGINAL`: 16 colours as 0xRRGGBBAA, index = 8·bright + colour -/")
    t.append("def paletteRGBA : List Nat := [%s]" % ", ".join("0x%08X" % v for v in vals))
    t.append("")


def video_consts(repo):
    t = ["/- GENERATED by tools/extract.py (VideoConsts) from rustzx-core/src/zx/constants.rs, utils/screen.rs,",
         "zx/video/{screen,border,colors}.rs, zx/machine/{mod,specs}.rs and rustzx-utils/src/palette.rs: constants and",
         "*expressions*, translated (usize -> Nat, u8 -> BitVec 8, u16 -> BitVec 16, fully parenthesised). Do not edit. -/",
         "set_option linter.unusedVariables false", "namespace ZxVerif.Extracted.Video", ""]
    rel_c = "rustzx-core/src/zx/constants.rs"
    consts = blank_comments(read(repo, rel_c))
    cenv, clines = _const_table(consts, rel_c, ["CANVAS_WIDTH", "CANVAS_HEIGHT", "SCREEN_WIDTH", "SCREEN_HEIGHT", "FPS",
                                                "BITMAP_MAX_REL", "ATTR_BASE_REL", "ATTR_MAX_REL", "CLOCKS_PER_COL",
                                                "PIXELS_PER_CLOCK", "ATTR_COLS", "ATTR_ROWS", "BORDER_COLS", "BORDER_ROWS"])
    t += ["/-! ### zx/constants.rs -/"] + clines + [""]
    # utils/screen.rs: the five address helpers
    rel_u = "rustzx-core/src/utils/screen.rs"
    us = blank_comments(read(repo, rel_u))
    t.append("/-! ### utils/screen.rs -/")
    for fn, lean, ret in (("bitmap_line_addr", "bitmapLineAddr", "BitVec 16"), ("bitmap_line_rel", "bitmapLineRel", "Nat"),
                          ("bitmap_col_rel", "bitmapColRel", "Nat"), ("attr_row_rel", "attrRowRel", "Nat"),
                          ("attr_col_rel", "attrColRel", "Nat")):
        t.append(_tr_fn(us, rel_u, fn, lean, ret, cenv))
    # machine geometry
    t.append("/-! ### zx/machine -/")
    t += _geometry(repo)
    genv = dict(cenv)
    for f in _GEOM_FIELDS:
        genv["specs." + f] = ("g.%s" % f, "nat")
    # video/screen.rs
    rel_s = "rustzx-core/src/zx/video/screen.rs"
    ss = blank_comments(read(repo, rel_s))
    t.append("/-! ### zx/video/screen.rs -/")
    t.append(_tr_fn(ss, rel_s, "from_clocks", "fromClocks", "Nat × Nat", genv, ["(g : Geom)"], ["lines", "columns"],
                    "(lines, columns)"))
    _, _, body, line = _rust_fn(ss, rel_s, "process_clocks")
    where = "%s:%d (fn process_clocks)" % (rel_s, line)
    penv = dict(cenv)
    penv.update({"block": ("block", "nat"), "pixel": ("pixel", "nat"), "bitmap": ("bitmap", "bv8"),
                 "attr_row": ("attr_row", "nat"), "attr_col": ("attr_col", "nat"),
                 "blocks.lines": ("lines", "nat"), "blocks.columns": ("columns", "nat")})

    def grab(pat, what):
        mm = re.findall(pat, body, flags=re.S)
        if len(mm) != 1:
            raise Fail("%s: %s found %d times" % (where, what, len(mm)))
        return mm[0]
    t.append("/-- `process_clocks`: linear block index of a `BlocksCount` -/")
    t.append("def blockIdx (lines columns : Nat) : Nat := %s" % _tr_expr(grab(r"let\s+curr_block\s*=\s*([^;]*);", "`let curr_block`"), penv, where)[0])
    prev = grab(r"let\s+prev_block\s*=\s*([^;]*);", "`let prev_block`")
    penv2 = dict(penv)
    penv2.update({"self.last_blocks.lines": ("lines", "nat"), "self.last_blocks.columns": ("columns", "nat")})
    t.append("/-- … and of `last_blocks` -/")
    t.append("def blockIdxPrev (lines columns : Nat) : Nat := %s" % _tr_expr(prev, penv2, where)[0])
    t.append("/-- `process_clocks`: attribute cell of a block -/")
    t.append("def renderAttrRow (block : Nat) : Nat := %s" % _tr_expr(grab(r"let\s+attr_row\s*=\s*([^;]*);", "`let attr_row`"), penv, where)[0])
    t.append("def renderAttrCol (block : Nat) : Nat := %s" % _tr_expr(grab(r"let\s+attr_col\s*=\s*([^;]*);", "`let attr_col`"), penv, where)[0])
    t.append("def renderAttrIdx (attr_row attr_col : Nat) : Nat := %s" % _tr_expr(grab(r"\.attributes\s*\[([^\]]*)\]", "`.attributes[..]`"), penv, where)[0])
    bm = grab(r"\.bitmap\s*\[([^\]]*)\]", "`.bitmap[..]`")
    t.append("def renderBitmapIdx (block : Nat) : Nat := %s" % _tr_expr(bm, penv, where)[0])
    v, tv = _tr_expr(grab(r"let\s+state\s*=\s*([^;]*);", "`let state`"), penv, where)
    if tv != "bool":
        raise Fail("%s: `state` has type %s" % (where, tv))
    t.append("/-- `process_clocks`: is pixel `pixel` (0 = leftmost) of the display byte set -/")
    t.append("def renderPixelOn (bitmap : BitVec 8) (pixel : Nat) : Bool := %s" % v)
    mm = re.search(r"\.set_color\s*\(", body)
    if not mm:
        raise Fail("%s: no set_color call" % where)
    args = body[mm.end():_match(body, mm.end() - 1)]
    parts, depth, start = [], 0, 0
    for i, c in enumerate(args):
        depth += (c in "([{") - (c in ")]}")
        if c == "," and depth == 0:
            parts.append(args[start:i]); start = i + 1
    parts.append(args[start:])
    parts = [" ".join(x.split()) for x in parts if x.strip()]
    if len(parts) != 4 or parts[2] != "attr.active_color(state, self.flash)" or parts[3] != "attr.brightness":
        raise Fail("%s: set_color(%s): expected (x, y, attr.active_color(state, self.flash), attr.brightness)" % (where, ", ".join(parts)))
    t.append("/-- `process_clocks`: frame-buffer coordinates handed to `set_color` -/")
    t.append("def renderX (block pixel : Nat) : Nat := %s" % _tr_expr(parts[0], penv, where)[0])
    t.append("def renderY (block : Nat) : Nat := %s" % _tr_expr(parts[1], penv, where)[0])
    mm = re.search(r"for\s+pixel\s+in\s+([^{]*?)\s*\.\.\s*([^{]*?)\s*\{", body)
    if not mm:
        raise Fail("%s: `for pixel in a..b` not found" % where)
    t.append("def renderPixelRange : Nat × Nat := (%s, %s)" % (_tr_expr(mm.group(1), penv, where)[0], _tr_expr(mm.group(2), penv, where)[0]))
    # update
    _, _, body, line = _rust_fn(ss, rel_s, "update")
    where = "%s:%d (fn update)" % (rel_s, line)
    uenv = dict(cenv)
    uenv.update({"line": ("line", "nat"), "col": ("col", "nat"), "row": ("row", "nat")})
    arms = re.findall(r"([\w.]+)\s*\.\.=\s*([\w.]+)\s*=>\s*\{", body)
    if len(arms) != 2:
        raise Fail("%s: expected two `a..=b => {` arms, found %d" % (where, len(arms)))
    mb = re.findall(r"\.bitmap\s*\[([^\]]*)\]\s*=\s*data\s*;", body)
    ma = re.findall(r"\.attributes\s*\[([^\]]*)\]\s*=\s*ZXAttribute::from_byte\s*\(\s*data\s*\)\s*;", body)
    pos = [body.find(".bitmap"), body.find(".attributes")]
    if len(mb) != 1 or len(ma) != 1 or not (body.find(arms[0][0] + "..=") < pos[0] < body.find(arms[1][0] + "..=") < pos[1]):
        raise Fail("%s: the bitmap / attribute stores are not where they were" % where)
    for need in (r"let\s+line\s*=\s*bitmap_line_rel\s*\(\s*rel_addr\s*\)", r"let\s+col\s*=\s*bitmap_col_rel\s*\(\s*rel_addr\s*\)",
                 r"let\s+row\s*=\s*attr_row_rel\s*\(\s*rel_addr\s*\)", r"let\s+col\s*=\s*attr_col_rel\s*\(\s*rel_addr\s*\)"):
        if len(re.findall(need, body)) != 1:
            raise Fail("%s: `%s` not found exactly once" % (where, need))
    t.append("/-- `update`: the two address ranges (inclusive) -/")
    t.append("def updateBitmapRange : BitVec 16 × BitVec 16 := (%s, %s)" % (_tr_expr(arms[0][0], uenv, where)[0], _tr_expr(arms[0][1], uenv, where)[0]))
    t.append("def updateAttrRange : BitVec 16 × BitVec 16 := (%s, %s)" % (_tr_expr(arms[1][0], uenv, where)[0], _tr_expr(arms[1][1], uenv, where)[0]))
    t.append("/-- `update`: cache cells written, from (line, col) = (bitmap_line_rel, bitmap_col_rel) and (row, col) = (attr_row_rel, attr_col_rel) -/")
    t.append("def updateBitmapIdx (line col : Nat) : Nat := %s" % _tr_expr(mb[0], uenv, where)[0])
    t.append("def updateAttrIdx (row col : Nat) : Nat := %s" % _tr_expr(ma[0], uenv, where)[0])
    # new_frame (flash)
    _, _, body, line = _rust_fn(ss, rel_s, "new_frame")
    where = "%s:%d (fn new_frame)" % (rel_s, line)
    mm = re.findall(r"\bif\s+([^{]*?)\s*\{\s*self\.switch_flash\(\)\s*;\s*\}", body)
    inc = re.findall(r"self\.frame_counter\s*\+=\s*([^;]*);", body)
    if len(mm) != 1 or len(inc) != 1 or body.find("switch_flash") > body.find("self.frame_counter +="):
        raise Fail("%s: expected one `if .. { self.switch_flash(); }` followed by one `self.frame_counter += ..;`" % where)
    v, tv = _tr_expr(mm[0], {"self.frame_counter": ("frameCounter", "nat")}, where)
    if tv != "bool":
        raise Fail("%s: flash condition has type %s" % (where, tv))
    _, _, sf, line2 = _rust_fn(ss, rel_s, "switch_flash")
    if _squash(sf) != "self.flash=!self.flash;":
        raise Fail("%s:%d: switch_flash is no longer `self.flash = !self.flash;`" % (rel_s, line2))
    t.append("/-- `new_frame`: does this frame end toggle the FLASH phase (`switch_flash`: `flash = !flash`) -/")
    t.append("def flashToggles (frameCounter : Nat) : Bool := %s" % v)
    t.append("def frameCounterStep : Nat := %s" % _tr_expr(inc[0], {}, where)[0])
    t.append("")
    # border.rs
    rel_b = "rustzx-core/src/zx/video/border.rs"
    bs = blank_comments(read(repo, rel_b))
    t.append("/-! ### zx/video/border.rs -/")
    t.append(_tr_fn(bs, rel_b, "next_border_pixel", "nextBorderPixel", "Nat × Nat × Bool", genv, ["(g : Geom)"], None,
                    "(line, pixel, frame_end)"))
    _, _, body, line = _rust_fn(bs, rel_b, "fill_to")
    where = "%s:%d (fn fill_to)" % (rel_b, line)
    mm = re.search(r"for\s+p\s+in\s*\(([^{]*?)\)\s*\.\.\s*\(([^{]*?)\)\s*\{", body)
    sc = re.search(r"\.set_color\s*\(", body)
    if not mm or not sc:
        raise Fail("%s: `for p in (a)..(b) { .. set_color(..) }` not found" % where)
    benv = dict(cenv)
    benv.update({"last.line": ("line0", "nat"), "last.pixel": ("pixel0", "nat"), "line": ("line", "nat"),
                 "pixel": ("pixel", "nat"), "p": ("p", "nat")})
    args = [" ".join(x.split()) for x in body[sc.end():_match(body, sc.end() - 1)].split(",") if x.strip()]
    if len(args) != 4 or args[2] != "last.color" or args[3] != "ZXBrightness::Normal":
        raise Fail("%s: set_color(%s): expected (x, y, last.color, ZXBrightness::Normal)" % (where, ", ".join(args)))
    t.append("/-- `fill_to`: the linear range painted and the coordinates of linear position `p` -/")
    t.append("def fillFrom (line0 pixel0 : Nat) : Nat := %s" % _tr_expr(mm.group(1), benv, where)[0])
    t.append("def fillUpTo (line pixel : Nat) : Nat := %s" % _tr_expr(mm.group(2), benv, where)[0])
    t.append("def fillX (p : Nat) : Nat := %s" % _tr_expr(args[0], benv, where)[0])
    t.append("def fillY (p : Nat) : Nat := %s" % _tr_expr(args[1], benv, where)[0])
    _, _, body, line = _rust_fn(bs, rel_b, "new_frame")
    where = "%s:%d (fn new_frame)" % (rel_b, line)
    ft = re.findall(r"self\.fill_to\s*\(([^;]*)\)\s*;", body)
    if len(ft) != 1:
        raise Fail("%s: expected one fill_to call" % where)
    a = [x for x in ft[0].split(",")]
    if len(a) != 2:
        raise Fail("%s: fill_to(%s)" % (where, ft[0]))
    t.append("/-- `new_frame` / `set_border` at the frame end: `fill_to(..)` up to the end of the buffer -/")
    t.append("def fillEnd : Nat × Nat := (%s, %s)" % (_tr_expr(a[0], cenv, where)[0], _tr_expr(a[1], cenv, where)[0]))
    t.append("")
    t.append("/-! ### zx/video/colors.rs, rustzx-utils/src/palette.rs -/")
    _colors(repo, t)
    _palette(repo, t)
    t.append("end ZxVerif.Extracted.Video")
    return "\n".join(t) + "\n"


# ---- MixerConsts -----------------------------------------------------------------------------------

from fractions import Fraction


def _rat(e, env, where):
    """exact rational value of a constant f64 expression"""
    k = e[0]
    if k == "float":
        return Fraction(e[1])
    if k == "num":
        return Fraction(e[1])
    if k == "var" and e[1] in env:
        return env[e[1]]
    if k == "bin" and e[1] in "+-*/":
        a, b = _rat(e[2], env, where), _rat(e[3], env, where)
        if e[1] == "/" and b == 0:
            raise Fail("%s: division by zero" % where)
        return {"+": a + b, "-": a - b, "*": a * b, "/": a / b if b else a}[e[1]]
    raise Fail("%s: not a constant f64 expression" % where)


def _milli(q, where):
    v = q * 1000
    if v.denominator != 1 or v < 0:
        raise Fail("%s: %s is not a whole, non-negative number of 1/1000" % (where, q))
    return int(v)


def mixer_consts(repo):
    t = ["/- GENERATED by tools/extract.py (MixerConsts) from rustzx-core/src/zx/sound/{mixer,beeper}.rs, zx/constants.rs",
         "and zx/controller.rs (create_mixer, frame_pos, the ULA branch of write_io). f64 literals are exact rationals,",
         "written in units of 1/1000. Do not edit. -/",
         "set_option linter.unusedVariables false", "namespace ZxVerif.Extracted.Mixer", ""]
    rel_c = "rustzx-core/src/zx/constants.rs"
    cenv, clines = _const_table(blank_comments(read(repo, rel_c)), rel_c, ["FPS"])
    t += [l for l in clines if l.startswith("def FPS ")] + [""]
    cenv = {"FPS": cenv["FPS"]}
    # beeper.rs
    rel_b = "rustzx-core/src/zx/sound/beeper.rs"
    bs = blank_comments(read(repo, rel_b))
    _, _, body, line = _rust_fn(bs, rel_b, "gen_sample")
    where = "%s:%d (fn gen_sample)" % (rel_b, line)
    renv = {}
    for m in re.finditer(r"\bconst\s+(\w+)\s*:\s*f64\s*=\s*([^;]*);", body):
        p = _P(_tokens(m.group(2), where), where)
        renv[m.group(1)] = _rat(p.expr(), renv, where)
        t.append("/-- `%s` × 1000 -/" % m.group(1))
        t.append("def %s : Nat := %d" % (m.group(1), _milli(renv[m.group(1)], where)))
    rest = re.sub(r"\bconst\s+\w+\s*:\s*f64\s*=\s*[^;]*;", "", body)
    # the remaining body: let mut sample = 0.0; if self.ear { sample += C; } if self.mic { sample += C; } SoundSample::new(sample, sample)
    p = _P(_tokens(rest, where), where)
    stmts = _parse_block(p)

    def milli_ast(e):
        if e[0] == "float" or (e[0] == "var" and e[1] in renv):
            return ("num", _milli(_rat(e, renv, where), where))
        if e[0] == "bin" and e[1] in "+-":
            return ("bin", e[1], milli_ast(e[2]), milli_ast(e[3]))
        if e[0] == "var":
            return e
        if e[0] == "tuple":
            return ("tuple", [milli_ast(x) for x in e[1]])
        raise Fail("%s: `%s` in the level computation (only sums of constants are translated)" % (where, e[0] if e[0] != "bin" else e[1]))

    def milli_stmts(ss):
        out = []
        for s in ss:
            if s[0] in ("let", "set"):
                out.append((s[0], s[1], milli_ast(s[2])))
            elif s[0] == "if":
                out.append(("if", s[1], milli_stmts(s[2]), milli_stmts(s[3])))
            elif s[0] in ("tail", "return"):
                out.append((s[0], milli_ast(s[1])))
            else:
                raise Fail("%s: statement %s" % (where, s[0]))
        return out
    env = {"self.ear": ("ear", "bool"), "self.mic": ("mic", "bool")}
    text = _lean_stmts(milli_stmts(stmts), env, where, "  ")
    t.append("/-- `ZXBeeper::gen_sample`: (left, right) × 1000 for the two speaker bits -/")
    t.append("def beeperLevel (ear mic : Bool) : Nat × Nat :=\n" + text)
    params, _, body, line = _rust_fn(bs, rel_b, "change_state")
    if [x.strip() for x in params.split(",")[1:]] != ["ear: bool", "mic: bool"] or _squash(body) != "self.ear=ear;self.mic=mic;":
        raise Fail("%s:%d: change_state(&mut self, ear, mic) is no longer `self.ear = ear; self.mic = mic;`" % (rel_b, line))
    # controller.rs
    rel_k = CONTROLLER
    ks = blank_comments(read(repo, rel_k))
    _, _, body, line = _rust_fn(ks, rel_k, "write_io")
    where = "%s:%d (fn write_io)" % (rel_k, line)
    cs = re.findall(r"\.beeper\s*\.\s*change_state\s*\(([^)]*)\)", body)
    if not cs:
        raise Skip("write_io no longer calls beeper.change_state")
    if len(cs) != 1 or _squash(cs[0]) != "ear,mic":
        raise Fail("%s: change_state(%s): expected exactly one call `change_state(ear, mic)`" % (where, cs[0] if cs else ""))
    for nm in ("ear", "mic"):
        mm = re.findall(r"\blet\s+%s\s*=\s*([^;]*);" % nm, body)
        if len(mm) != 1:
            raise Fail("%s: `let %s = ..;` found %d times" % (where, nm, len(mm)))
        v, tv = _tr_expr(mm[0], {"data": ("data", "bv8")}, where)
        if tv != "bool":
            raise Fail("%s: `%s` has type %s" % (where, nm, tv))
        t.append("/-- the ULA branch of `write_io`: the `%s` bit of the byte written -/" % nm)
        t.append("def %sOf (data : BitVec 8) : Bool := %s" % (nm, v))
    _, _, body, line = _rust_fn(ks, rel_k, "create_mixer")
    where = "%s:%d (fn create_mixer)" % (rel_k, line)
    vol = re.findall(r"\.volume\s*\(([^;]*)\)\s*;", body)
    if len(vol) != 1:
        raise Fail("%s: expected one `.volume(..)` call, found %d" % (where, len(vol)))
    mm = re.match(r"^\s*settings\.sound_volume\s+as\s+f64\s*/\s*([0-9_.]+)\s*$", vol[0])
    if not mm or Fraction(mm.group(1).replace("_", "")).denominator != 1:
        raise Fail("%s: volume(%s): expected `settings.sound_volume as f64 / <whole number>`" % (where, " ".join(vol[0].split())))
    t.append("/-- `create_mixer`: `master_volume = sound_volume / volumeDivisor` -/")
    t.append("def volumeDivisor : Nat := %d" % int(Fraction(mm.group(1).replace("_", ""))))
    _, _, body, line = _rust_fn(ks, rel_k, "frame_pos")
    where = "%s:%d (fn frame_pos)" % (rel_k, line)
    sq = _squash(body)
    mm = re.match(r"^letval=self\.frame_clocksasf64/self\.machine\.specs\(\)\.clocks_frameasf64;"
                  r"ifval>([0-9_.]+)\{([0-9_.]+)\}else\{val\}$", sq)
    if not mm:
        raise Fail("%s: no longer `let val = frame_clocks as f64 / clocks_frame as f64; if val > c { c } else { val }`" % where)
    clamp_at, clamp_to = Fraction(mm.group(1).replace("_", "")), Fraction(mm.group(2).replace("_", ""))
    # mixer.rs
    rel_m = "rustzx-core/src/zx/sound/mixer.rs"
    ms = blank_comments(read(repo, rel_m))
    t.append(_tr_fn(ms, rel_m, "samples_per_frame", "samplesPerFrame", "Nat",
                    dict(cenv, **{"self.sample_rate": ("sampleRate", "nat")}), ["(sampleRate : Nat)"]))
    _, _, body, line = _rust_fn(ms, rel_m, "sample_count_for_frame_fraction")
    where = "%s:%d (fn sample_count_for_frame_fraction)" % (rel_m, line)
    mm = re.match(r"^iffraction>=([0-9_.]+?)(?:f64)?\{returnself\.samples_per_frame\(\);\}"
                  r"\(self\.samples_per_frame\(\)asf64\*fraction\)asusize$", _squash(body))
    if not mm:
        raise Fail("%s: no longer `if fraction >= c { return spf; } (spf as f64 * fraction) as usize`" % where)
    full_at = Fraction(mm.group(1).replace("_", ""))
    if clamp_to < full_at or clamp_at < full_at:
        # a clamped position below the threshold would never report a full frame: a different formula
        raise Fail("%s: clamp %s -> %s against threshold %s" % (where, clamp_at, clamp_to, full_at))
    t.append("/-- `frame_pos` + `sample_count_for_frame_fraction`, read over the rationals: with `t` frame clocks of a")
    t.append("frame of `L`, the fraction `t/L` (clamped to %s above %s) gives `spf` from `t/L ≥ %s` on, else ⌊spf·t/L⌋ -/" % (clamp_to, clamp_at, full_at))
    t.append("def posQ (spf L t : Nat) : Nat := if t * %d ≥ %d * L then spf else spf * t / L" % (full_at.denominator, full_at.numerator))
    _, _, body, line = _rust_fn(ms, rel_m, "process")
    where = "%s:%d (fn process)" % (rel_m, line)
    menv = {"self.ring_buffer.len()": ("len", "nat"), "self.samples_per_frame()": ("spf", "nat"),
            "self.last_pos": ("lastPos", "nat"), "curr_pos": ("currPos", "nat")}
    guards = re.findall(r"\bif\s+([^{]*?)\s*\{\s*return\s*;\s*\}", body)
    cnt = re.findall(r"\blet\s+sample_count\s*=\s*([^;]*);", body)
    loop = re.findall(r"\bfor\s+_\s+in\s+0\s*\.\.\s*sample_count\s*\{", body)
    if len(guards) != 2 or len(cnt) != 1 or len(loop) != 1 or not re.search(r"self\.last_pos\s*=\s*curr_pos\s*;", body) \
            or not re.search(r"let\s+curr_pos\s*=\s*self\.sample_count_for_frame_fraction\s*\(\s*current_time\s*\)\s*;", body):
        raise Fail("%s: expected two `if .. { return; }` guards, `let curr_pos = ..(current_time)`, `let sample_count = ..`, "
                   "`self.last_pos = curr_pos`, `for _ in 0..sample_count`" % where)
    t.append("/-- `process`: the queue is full (nothing is generated) -/")
    t.append("def processFull (len spf : Nat) : Bool := %s" % _tr_expr(guards[0], menv, where)[0])
    t.append("/-- `process`: the position did not advance (nothing is generated) -/")
    t.append("def processStale (currPos lastPos : Nat) : Bool := %s" % _tr_expr(guards[1], menv, where)[0])
    t.append("/-- `process`: number of samples generated otherwise -/")
    t.append("def processCount (currPos lastPos : Nat) : Nat := %s" % _tr_expr(cnt[0], menv, where)[0])
    _, _, body, line = _rust_fn(ms, rel_m, "new_frame")
    where = "%s:%d (fn new_frame)" % (rel_m, line)
    mm = re.match(r"^\s*if\s+([^{]*?)\s*\{\s*for\s+_\s+in\s+([^{]*?)\s*\.\.\s*([^{]*?)\s*\{\s*self\.ring_buffer\.push_back\(\s*self\.last_sample\s*\)\s*;"
                  r"\s*\}\s*\}\s*self\.last_pos\s*=\s*([^;]*);\s*$", body)
    if not mm:
        raise Fail("%s: no longer `if c { for _ in a..b { push_back(last_sample) } } last_pos = k`" % where)
    t.append("/-- `new_frame`: when the queue is padded with the last sample, and over which index range -/")
    t.append("def newFramePads (len spf : Nat) : Bool := %s" % _tr_expr(mm.group(1), menv, where)[0])
    t.append("def newFramePadRange (len spf : Nat) : Nat × Nat := (%s, %s)" % (_tr_expr(mm.group(2), menv, where)[0], _tr_expr(mm.group(3), menv, where)[0]))
    t.append("/-- `new_frame`: the cursor restarts here -/")
    t.append("def newFrameLastPos : Nat := %s" % _tr_expr(mm.group(4), menv, where)[0])
    _, _, body, line = _rust_fn(ms, rel_m, "new")
    mm = re.findall(r"ring_buffer\s*:\s*VecDeque::with_capacity\(([^)]*)\)", body)
    if len(mm) == 1:
        t.append("/-- `ZXMixer::new`: capacity reserved for the queue (a hint; `VecDeque` grows) -/")
        t.append("def queueCapacityHint (sample_rate : Nat) : Nat := %s" % _tr_expr(mm[0], {"sample_rate": ("sample_rate", "nat")}, "%s:%d (fn new)" % (rel_m, line))[0])
    _, _, body, line = _rust_fn(ms, rel_m, "gen_sample")
    where = "%s:%d (fn gen_sample)" % (rel_m, line)
    if not re.search(r"master_float\s*\.\s*mul_eq\s*\(\s*self\.master_volume\s*\)", body):
        raise Fail("%s: the sample is no longer multiplied by `self.master_volume`" % where)
    t += ["", "end ZxVerif.Extracted.Mixer"]
    return "\n".join(t) + "\n"


# ---------------------------------------------------------------------------------------------------
# Paging / FrameClock: `&mut self` methods of ZXController and the map arithmetic of ZXMemory, translated
# (C06, C05). On top of the expression translator above: a statement translator for straight-line
# method bodies that thread the fields of `self` — `self.f = e` becomes `let s := { s with f := e }`,
# an `if` repeats what follows it in both branches (continuation style, so an early `return;` simply
# ends its branch), a call of another translated method / of `memory.remap` is a `let` / a `match` on
# its result (`none` = the panic inside `remap`). Statements that cannot touch the tracked fields —
# calls on other sub-devices (`self.tape.…`, `self.mixer.…`, `self.screen.process_clocks(..)`),
# stores into other fields, `if let` blocks made of such — are skipped and named in the doc comment
# of the generated definition; anything else that is not understood is a Fail, never dropped.
# ---------------------------------------------------------------------------------------------------

_SPECS_FIELD = re.compile(r"self\s*\.\s*machine\s*\.\s*specs\s*\(\s*\)\s*\.\s*(\w+)")


def _norm(text):
    return _norm_map(text, 0, len(text))[0]


def _join_paths(text):
    """`self.memory\n    .remap(..)` (a method chain broken by rustfmt) -> `self.memory.remap(..)`"""
    return re.sub(r"(?<=[\w)\]])\s*\.\s*(?=[A-Za-z_])", ".", text)


def _parse_mstmt(p):
    """one statement of a method body (a superset of `_parse_block`'s: attributes, bare blocks, `if let`, calls)"""
    k, x = p.peek()
    if x == "__attr__":
        p.eat()
        return ("attr", _parse_mstmt(p))
    if x == "{":
        p.eat()
        inner = _parse_mblock(p)
        p.eat("}")
        return ("block", inner)
    if x == "let":
        p.eat()
        if p.at("mut"):
            p.eat()
        if p.peek()[0] != "id":
            raise Fail("%s: `let` with a pattern (`%s`)" % (p.where, p.peek()[1]))
        name = p.eat()
        if p.at(":"):
            p.eat(); p.eat()
        p.eat("=")
        e = _parse_mif(p) if p.at("if") else p.expr()
        p.eat(";")
        return ("let", name, e)
    if x == "if":
        s = _parse_mif(p)
        if p.at(";"):
            p.eat()
        return s
    if x == "return":
        p.eat()
        e = None if p.at(";") else p.expr()
        p.eat(";")
        return ("return", e)
    if x in ("match", "for", "while", "loop", "unsafe"):
        raise Fail("%s: `%s` inside a method body that is translated statement by statement" % (p.where, x))
    if k == "id" and p.peek(1)[1] == "!" and p.peek(2)[1] == "(":
        p.eat(); p.eat(); p.eat("(")
        depth = 1
        while depth:
            y = p.eat()
            depth += (y == "(") - (y == ")")
        if p.at(";"):
            p.eat()
        return ("macro", x)
    if k == "id" and p.peek(1)[1] in ("=", "+=", "-=", "*="):
        name = p.eat(); op = p.eat()
        e = p.expr()
        p.eat(";")
        if op != "=":
            e = ("bin", op[0], ("var", name), e)
        return ("set", name, e)
    e = p.expr()
    if p.at(";"):
        p.eat()
        return ("expr", e)
    if p.peek()[0] is None or p.at("}"):
        return ("tail", e)
    raise Fail("%s: cannot parse the statement starting with `%s`" % (p.where, x))


def _parse_mblock(p):
    out = []
    while p.peek()[0] is not None and not p.at("}"):
        out.append(_parse_mstmt(p))
    return out


def _parse_mif(p):
    p.eat("if")
    if p.at("let"):
        p.eat()
        pat, depth = [], 0
        while not (p.at("=") and depth == 0):
            y = p.eat()
            depth += (y in "([") - (y in ")]") if len(y) == 1 else 0
            pat.append(y)
        p.eat("=")
        head = ("iflet", "".join(pat), p.expr())
    else:
        head = ("if", p.expr())
    p.eat("{")
    th = _parse_mblock(p)
    p.eat("}")
    el = []
    if p.at("else"):
        p.eat()
        if p.at("if"):
            el = [_parse_mif(p)]
        else:
            p.eat("{")
            el = _parse_mblock(p)
            p.eat("}")
    return head + (th, el)


class _MCtx:
    """what a method translation knows about `self`"""

    def __init__(self, fields, devices=(), readonly=(), handlers=None, option=False):
        self.fields = fields          # tracked field -> type
        self.devices = set(devices)   # sub-devices whose calls are *not* skipped (they carry tracked state)
        self.readonly = set(readonly)  # `&self` methods of the controller itself
        self.handlers = handlers or {}
        self.option = option          # the translated method may panic (returns Option)
        self.skipped = []


def _m_pure(e, ctx):
    """the expression cannot change a tracked field: no call on `self` other than on an untracked
    sub-device (which borrows that device only) or a known `&self` method"""
    k = e[0]
    if k in ("num", "float"):
        return True
    if k == "var":
        return e[1] != "self"
    if k == "un":
        return _m_pure(e[2], ctx)
    if k == "cast":
        return _m_pure(e[1], ctx)
    if k == "bin":
        return _m_pure(e[2], ctx) and _m_pure(e[3], ctx)
    if k == "tuple":
        return all(_m_pure(x, ctx) for x in e[1])
    if k == "call":
        parts = e[1].split(".")
        if parts[0] == "self":
            if len(parts) >= 3:
                if parts[1] in ctx.devices or parts[1] in ctx.fields:
                    return False
            elif e[1] not in ctx.readonly:
                return False
        return all(_m_pure(a, ctx) for a in e[2])
    return False


def _m_names(s):
    """the calls / stores a skipped statement consists of (for the doc comment)"""
    k = s[0]
    if k == "expr" and s[1][0] == "call":
        return [s[1][1]]
    if k == "set":
        return [s[1] + " ="]
    if k in ("attr",):
        return _m_names(s[1])
    if k == "block":
        return [n for x in s[1] for n in _m_names(x)]
    if k == "iflet":
        return ([s[2][1]] if s[2][0] == "call" else []) + [n for x in s[3] + s[4] for n in _m_names(x)]
    if k == "if":
        return [n for x in s[2] + s[3] for n in _m_names(x)]
    if k == "let" and s[2][0] == "call":
        return [s[2][1]]
    return []


def _m_irrelevant(s, ctx, nested=False):
    k = s[0]
    if k == "expr":
        return _m_pure(s[1], ctx)
    if k == "let" and nested:   # a local of a block that is skipped as a whole
        return s[2][0] != "if" and _m_pure(s[2], ctx)
    if k == "set":
        parts = s[1].split(".")
        return (parts[0] == "self" and len(parts) >= 2 and parts[1] not in ctx.fields and parts[1] not in ctx.devices
                and _m_pure(s[2], ctx))
    if k == "attr":
        return _m_irrelevant(s[1], ctx, nested)
    if k == "block":
        return all(_m_irrelevant(x, ctx, True) for x in s[1])
    if k == "iflet":
        return _m_pure(s[2], ctx) and all(_m_irrelevant(x, ctx, True) for x in s[3] + s[4])
    if k == "if":
        return _m_pure(s[1], ctx) and all(_m_irrelevant(x, ctx, True) for x in s[2] + s[3])
    return False


def _m_coerce(v, tv, e, ft, litvars, where, what):
    if tv == ft or (tv == "lit" and ft in ("bv8", "bv16", "nat")):
        return v
    if tv == "nat" and ft in ("bv8", "bv16") and e[0] == "var" and e[1] in litvars:
        return "(BitVec.ofNat %d %s)" % (8 if ft == "bv8" else 16, v)   # a local whose every value is an integer literal
    raise Fail("%s: a %s value stored into %s (%s)" % (where, tv, what, ft))


def _m_emit(stmts, env, ctx, where, ind, litvars=frozenset()):
    done = ("some s" if ctx.option else "s")
    if not stmts:
        return ind + done + "\n"
    s, rest = stmts[0], stmts[1:]
    k = s[0]
    if _m_irrelevant(s, ctx):
        ctx.skipped += [n for n in _m_names(s) if n not in ctx.skipped]
        return _m_emit(rest, env, ctx, where, ind, litvars)
    if k == "attr":
        raise Fail("%s: a statement under a `#[cfg(..)]` attribute touches the translated state" % where)
    if k in ("block", "iflet"):
        raise Fail("%s: a %s touches the translated state" % (where, "bare block" if k == "block" else "`if let` block"))
    if k == "macro":
        if s[1] in ("panic", "unreachable", "todo", "unimplemented") and ctx.option:
            return ind + "none\n"
        raise Fail("%s: `%s!` in a translated method" % (where, s[1]))
    if k == "return":
        if s[1] is not None:
            raise Fail("%s: `return <value>;` in a method translated as a state transformer" % where)
        return ind + done + "\n"
    if k == "tail":
        raise Fail("%s: the method ends in a value" % where)
    if k == "set":
        parts = s[1].split(".")
        if parts[0] != "self" or len(parts) != 2 or parts[1] not in ctx.fields:
            raise Fail("%s: assignment to `%s`" % (where, s[1]))
        v, tv = _lean(s[2], env, where)
        v = _m_coerce(v, tv, s[2], ctx.fields[parts[1]], litvars, where, s[1])
        return "%slet s := { s with %s := %s }\n" % (ind, parts[1], v) + _m_emit(rest, env, ctx, where, ind, litvars)
    if k == "let":
        val = s[2]
        try:
            if val[0] == "if":
                if len(val) != 4 or len(val[2]) != 1 or len(val[3]) != 1 or val[2][0][0] != "tail" or val[3][0][0] != "tail":
                    raise Fail("%s: `let %s = if ..` whose branches are not single expressions" % (where, s[1]))
                c, tc = _lean(val[1], env, where)
                a, ta = _lean(val[2][0][1], env, where)
                b, tb = _lean(val[3][0][1], env, where)
                if tc != "bool":
                    raise Fail("%s: `if` on a non-Boolean" % where)
                tv = tb if ta == "lit" else ta
                if tb not in ("lit", tv):
                    raise Fail("%s: the branches of `let %s = if ..` have types %s and %s" % (where, s[1], ta, tb))
                v = "(if %s then %s else %s)" % (c, a, b)
            else:
                v, tv = _lean(val, env, where)
        except Fail:
            if val[0] != "if" and _m_pure(val, ctx):
                # an opaque local (e.g. `let pos = self.frame_pos();`): only skipped statements may use it
                ctx.skipped += [n for n in _m_names(s) if n not in ctx.skipped]
                env2 = dict(env)
                env2.pop(s[1], None)
                return _m_emit(rest, env2, ctx, where, ind, litvars)
            raise
        if tv not in _LEANTY:
            raise Fail("%s: `let %s` of type %s" % (where, s[1], tv))
        env2 = dict(env)
        env2[s[1]] = (s[1], "nat" if tv == "lit" else tv)
        lv = (litvars | {s[1]}) if tv == "lit" else (litvars - {s[1]})
        return "%slet %s : %s := %s\n" % (ind, s[1], _LEANTY[tv], v) + _m_emit(rest, env2, ctx, where, ind, lv)
    if k == "if":
        c, tc = _lean(s[1], env, where)
        if tc != "bool":
            raise Fail("%s: `if` on a non-Boolean" % where)
        local = {x[1] for blk in (s[2], s[3]) for x in blk if x[0] == "let"}
        leak = local & _vars_of(rest)
        if leak:
            raise Fail("%s: `%s` is declared inside a branch and a variable of that name is used after the `if`"
                       % (where, sorted(leak)[0]))
        return ("%sif %s then\n%s%selse\n%s" % (ind, c, _m_emit(s[2] + rest, env, ctx, where, ind + "  ", litvars), ind,
                                                 _m_emit(s[3] + rest, env, ctx, where, ind + "  ", litvars)))
    if k == "expr":
        e = s[1]
        if e[0] == "call" and e[1] in ctx.handlers:
            return ctx.handlers[e[1]](e[2], env, ctx, where, ind, litvars, rest)
        raise Fail("%s: cannot translate the statement `%s(..)`" % (where, e[1]) if e[0] == "call"
                   else "%s: an expression statement that is not a call" % where)
    raise Fail("%s: statement kind %s" % (where, k))


def _tr_method(src, rel, name, lean_name, ctx, base_env, state_ty, pre_sig=()):
    """`fn name(&mut self, ..)` -> `def lean_name <pre_sig> (s : state_ty) <params> : [Option] state_ty`"""
    params, ret, body, line = _rust_fn(src, rel, name)
    where = "%s:%d (fn %s)" % (rel, line, name)
    if not re.match(r"^\s*&\s*mut\s+self\b", params):
        raise Fail("%s: not a `&mut self` method any more" % where)
    if ret:
        raise Fail("%s: returns `%s`" % (where, ret))
    try:
        env = dict(base_env)
        penv, sig = _params_env(params, where)
        env.update(penv)
        body = _SPECS_FIELD.sub(r"specs.\1", _join_paths(re.sub(r"#\s*!?\[[^\]]*\]", " __attr__ ", body)))
        p = _P(_tokens(body, where), where)
        stmts = _parse_mblock(p)
        if p.peek()[0] is not None:
            raise Fail("%s: unbalanced `}`" % where)
        ctx.skipped = []
        text = _m_emit(stmts, env, ctx, where, "  ")
    except Fail:
        raise
    except Exception as e:
        raise Fail("%s: could not be parsed (%r)" % (where, e))
    doc = "`%s` (%s:%d), statement by statement" % (name, rel, line)
    if ctx.skipped:
        doc += "; not translated (they act on other devices / fields only): " + ", ".join("`%s`" % n for n in ctx.skipped)
    return "/-- %s -/\ndef %s %s : %s :=\n%s" % (doc, lean_name, " ".join(list(pre_sig) + ["(s : %s)" % state_ty] + sig),
                                                ("Option " + state_ty) if ctx.option else state_ty, text)


def _tr_getter(src, rel, name, lean_name, env, ret_lean, ret_ty, state_ty, pre_sig=()):
    """`fn name(&self) -> T { <expression> }`"""
    params, ret, body, line = _rust_fn(src, rel, name)
    where = "%s:%d (fn %s)" % (rel, line, name)
    if not re.match(r"^\s*&\s*self\s*$", params):
        raise Fail("%s: parameters `%s` (expected `&self`)" % (where, " ".join(params.split())))
    v, tv = _tr_expr(_SPECS_FIELD.sub(r"specs.\1", _join_paths(body)), env, where)
    if tv != ret_ty and not (tv == "lit" and ret_ty in ("nat", "bv8")):
        raise Fail("%s: the body has type %s" % (where, tv))
    return "/-- `%s` (%s:%d) -/\ndef %s %s : %s := %s" % (name, rel, line, lean_name,
                                                         " ".join(list(pre_sig) + ["(s : %s)" % state_ty]), ret_lean, v)


def _controller_fields(ks, names):
    m = re.search(r"\bstruct\s+ZXController\b[^{]*\{", ks)
    if not m:
        raise Skip("struct ZXController not found in %s" % CONTROLLER)
    decl = ks[m.end():_match(ks, m.end() - 1)]
    out = {}
    for n in names:
        mm = re.findall(r"(?<![\w.])%s\s*:\s*(\w+)\s*," % n, decl)
        if len(mm) != 1:
            raise Skip("field %s of ZXController not found" % n)
        if mm[0] not in _RTYPES or _RTYPES[mm[0]] == "rat":
            raise Fail("%s: field %s has type %s" % (CONTROLLER, n, mm[0]))
        out[n] = _RTYPES[mm[0]]
    return out


def _controller_new(ks):
    """`ZXController::new`: per machine arm the locals it sets; the fields of the struct literal -> ({arm: {local: text}}, field -> text, where)"""
    _, _, body, line = _rust_fn(ks, CONTROLLER, "new")
    where = "%s:%d (fn new)" % (CONTROLLER, line)
    m = re.search(r"\bmatch\s+settings\s*\.\s*machine\s*\{", body)
    if not m:
        raise Fail("%s: `match settings.machine { .. }` not found" % where)
    mb = body[m.end():_match(body, m.end() - 1)]
    arms = {}
    for a in re.finditer(r"ZXMachine::(\w+)\s*=>\s*\{", mb):
        blk = mb[a.end():_match(mb, a.end() - 1)]
        loc = {}
        rest = blk
        for st in re.finditer(r"\s*(\w+)\s*=\s*([^;]*);", blk):
            loc[st.group(1)] = " ".join(st.group(2).split())
            rest = rest.replace(st.group(0), "", 1)
        if rest.strip():
            raise Fail("%s: arm %s contains `%s`" % (where, a.group(1), " ".join(rest.split())[:40]))
        arms[a.group(1)] = loc
    lit = re.search(r"\bZXController\s*\{", body)
    if not lit:
        raise Fail("%s: the `ZXController { .. }` literal not found" % where)
    lb = body[lit.end():_match(body, lit.end() - 1)]

    def field(f):
        if re.search(r"(?<![\w.])%s\s*:" % f, lb):
            return " ".join(_body_field(lb, f, where).split())
        if re.search(r"(?:^|,)\s*%s\s*(?:,|$)" % f, lb):
            return f
        raise Fail("%s: field `%s` is not initialised in the literal" % (where, f))
    return arms, field, where


_PAGING_HEAD = """/- GENERATED by tools/extract.py (Paging) from rustzx-core/src/zx/memory.rs (constants, `enum Page`, the arms
of `ZXMemory::new`, `paged_address`, `get_page`, `read`, `write`, `remap`) and rustzx-core/src/zx/controller.rs
(`ZXController::new`, `write_7ffd`, `restore_7ffd`, `read_7ffd`), translated statement by statement
(u8 -> BitVec 8, u16 -> BitVec 16, usize -> Nat, fully parenthesised). Do not edit. -/
set_option linter.unusedVariables false
namespace ZxVerif.Extracted.Paging
"""


def _page_lean(kind, n):
    return "Page.%s %s" % (kind, n)


def _memory_part(repo, t):
    src = _Src(repo, MEMORY_RS)
    ms = blank_comments(read(repo, MEMORY_RS))
    cenv, clines = _const_table(ms, MEMORY_RS, ["PAGE_SIZE", "SIZE_16K", "SIZE_32K", "SIZE_48K", "SIZE_128K", "MEM_BLOCKS"])
    t += ["/-! ### zx/memory.rs -/"] + clines + [""]
    m = re.search(r"\benum\s+Page\s*\{([^}]*)\}", ms)
    if not m:
        raise Skip("enum Page not found in %s" % MEMORY_RS)
    variants = [" ".join(x.split()) for x in m.group(1).split(",") if x.strip()]
    if sorted(variants) != ["Ram(u8)", "Rom(u8)"]:
        raise Fail("%s: enum Page has variants %s (expected Ram(u8), Rom(u8))" % (MEMORY_RS, variants))
    t.append("/-- `enum Page` -/")
    t.append("inductive Page | %s" % " | ".join("%s (n : BitVec 8)" % v[:3] for v in variants))
    t.append("  deriving DecidableEq, Repr")
    t.append("/-- the two byte arrays of `ZXMemory` -/")
    t.append("inductive Arr | ram | rom")
    t.append("  deriving DecidableEq, Repr")
    t.append("")
    # ZXMemory::new
    _, _, body, line = _rust_fn(ms, MEMORY_RS, "new")
    where = "%s:%d (fn new)" % (MEMORY_RS, line)
    arms = re.findall(r"RamType::(\w+)\s*=>\s*\{\s*ram_size\s*=\s*([^;]+);\s*mem_map\s*=\s*\[([^\]]*)\]\s*;\s*\}", body)
    n_arms = len(re.findall(r"RamType::\w+\s*=>", body))
    if not arms or len(arms) != n_arms:
        raise Fail("%s: %d arm(s) `RamType::X => { ram_size = ..; mem_map = [..]; }` among %d" % (where, len(arms), n_arms))
    sq = _squash(body)
    for need in ("rom:vec![0;rom_size]", "ram:vec![0;ram_size]", "map:mem_map"):
        if need not in sq:
            raise Fail("%s: the `ZXMemory { .. }` literal no longer has `%s`" % (where, need))
    blocks = src.value("MEM_BLOCKS", where)
    for nm, size, mp in arms:
        ents = re.findall(r"Page::(Ram|Rom)\(\s*([0-9A-Fa-fxX_]+)\s*\)", mp)
        if len(ents) != blocks or _squash(re.sub(r"Page::(Ram|Rom)\(\s*([0-9A-Fa-fxX_]+)\s*\)", "", mp)).strip(","):
            raise Fail("%s: arm %s: mem_map `[%s]` is not %d literal pages" % (where, nm, " ".join(mp.split()), blocks))
        t.append("/-- `ZXMemory::new`, arm `RamType::%s`: length of `ram`, initial `map` -/" % nm)
        t.append("def ramSize_%s : Nat := %s" % (nm, _tr_expr(size, cenv, where)[0]))
        t.append("def newMap_%s : List Page := [%s]" % (nm, ", ".join(_page_lean(k, num(v)) for k, v in ents)))
    mm = re.search(r"let\s+rom_size\s*=\s*match\s+rom_type\s*\{", body)
    if not mm:
        raise Fail("%s: `let rom_size = match rom_type { .. }` not found" % where)
    rb = body[mm.end():_match(body, mm.end() - 1)]
    roms = re.findall(r"RomType::(\w+)\s*=>\s*([^,}]+)", rb)
    if not roms or len(roms) != len(re.findall(r"=>", rb)):
        raise Fail("%s: cannot classify the arms of `match rom_type`" % where)
    for nm, size in roms:
        t.append("/-- `ZXMemory::new`, arm `RomType::%s`: length of `rom` -/" % nm)
        t.append("def romSize_%s : Nat := %s" % (nm, _tr_expr(size, cenv, where)[0]))
    t.append("")
    # paged_address / get_page
    _, _, body, line = _rust_fn(ms, MEMORY_RS, "paged_address")
    where = "%s:%d (fn paged_address)" % (MEMORY_RS, line)
    mm = re.match(r"^let page=self\.map\[(.+?)\];let offset=(.+?);\(page,offset\)$", _norm(body))
    if not mm:
        raise Fail("%s: no longer `let page = self.map[..]; let offset = ..; (page, offset)`" % where)
    aenv = dict(cenv, addr=("addr", "bv16"))
    for nm, g, what in (("pagedSlot", 1, "the slot of `map`"), ("pagedOffset", 2, "the offset inside the page")):
        v, tv = _tr_expr(mm.group(g), aenv, where)
        if tv != "nat":
            raise Fail("%s: %s has type %s" % (where, what, tv))
        t.append("/-- `paged_address`: %s -/" % what)
        t.append("def %s (addr : BitVec 16) : Nat := %s" % (nm, v))
    _, _, body, line = _rust_fn(ms, MEMORY_RS, "get_page")
    where = "%s:%d (fn get_page)" % (MEMORY_RS, line)
    mm = re.match(r"^self\.map\[(.+)\]$", _norm(body))
    if not mm:
        raise Fail("%s: no longer `self.map[..]`" % where)
    t.append("/-- `get_page`: the slot of `map` -/")
    t.append("def getPageSlot (addr : BitVec 16) : Nat := %s" % _tr_expr(mm.group(1), aenv, where)[0])
    t.append("")

    # read / write: which array a page of each kind goes to
    def arms_of(text, where, store):
        """`Page::K(v) => self.A[IDX] [= value]` arms -> {K: (A, var, idx) | None}"""
        out, pos = {}, 0
        tail = r"=value" if store else r""
        rx = re.compile(r"(?:Page::(Ram|Rom)\((\w+)\)|_)=>(?:\{(?:self\.(ram|rom)\[([^;{}]+)\]%s;?)?\}|self\.(ram|rom)\[([^;{}]+?)\]%s(?=,|$)),?" % (tail, tail))
        while pos < len(text):
            a = rx.match(text, pos)
            if not a:
                raise Fail("%s: cannot classify the arm `%s`" % (where, text[pos:pos + 40]))
            arr, idx = (a.group(3), a.group(4)) if a.group(3) else (a.group(5), a.group(6))
            kinds = [a.group(1)] if a.group(1) else [k for k in ("Ram", "Rom") if k not in out]
            for kd in kinds:
                if kd in out:
                    raise Fail("%s: two arms for Page::%s" % (where, kd))
                out[kd] = (arr, a.group(2), idx) if arr else None
            pos = a.end()
        return out

    def emit_access(fn, lean, store):
        _, _, body, line = _rust_fn(ms, MEMORY_RS, fn)
        where = "%s:%d (fn %s)" % (MEMORY_RS, line, fn)
        nb = _norm(body)
        mm = re.match(r"^let\((\w+),(\w+)\)=self\.paged_address\(addr\);(.*)$", nb)
        if not mm:
            raise Fail("%s: does not start with `let (page, offset) = self.paged_address(addr);`" % where)
        pg, off, rest = mm.groups()
        m1 = re.match(r"^if let Page::(Ram|Rom)\((\w+)\)=%s\{self\.(ram|rom)\[([^;{}]+)\]=value;?\}$" % pg, rest) if store else None
        m2 = re.match(r"^match %s\{(.*)\}$" % pg, rest)
        if m1:
            res = {m1.group(1): (m1.group(3), m1.group(2), m1.group(4))}
        elif m2:
            res = arms_of(m2.group(1), where, store)
        else:
            raise Fail("%s: the body after `paged_address` is neither `match %s { .. }`%s" % (
                where, pg, " nor `if let Page::K(p) = %s { self.A[..] = value; }`" % pg if store else ""))
        if not store and (res.get("Ram") is None or res.get("Rom") is None):
            raise Fail("%s: a page kind without a value" % where)
        t.append("/-- `ZXMemory::%s`: the array and the index a page of each kind is %s%s -/" % (
            fn, "stored into" if store else "read from", " (`none`: nothing is stored)" if store else ""))
        t.append("def %s : Page → Nat → %s" % (lean, "Option (Arr × Nat)" if store else "Arr × Nat"))
        for kd in ("Ram", "Rom"):
            r = res.get(kd)
            if r is None:
                t.append("  | .%s _, _ => none" % kd)
                continue
            arr, var, idx = r
            v, tv = _tr_expr(idx, dict(cenv, **{var: (var, "bv8"), off: (off, "nat")}), where)
            if tv != "nat":
                raise Fail("%s: the index `%s` has type %s" % (where, idx, tv))
            t.append("  | .%s %s, %s => %s(.%s, %s)" % (kd, var, off, "some " if store else "", arr, v))
    emit_access("read", "readFrom", False)
    emit_access("write", "writeTo", True)
    t.append("")
    # remap
    _, _, body, line = _rust_fn(ms, MEMORY_RS, "remap")
    where = "%s:%d (fn remap)" % (MEMORY_RS, line)
    params = _norm(_rust_fn(ms, MEMORY_RS, "remap")[0])
    if params != "&mut self,block:usize,page:Page":
        raise Fail("%s: parameters `%s`" % (where, params))
    mm = re.match(r"^match page\{(.*)\}self\.map\[block\]=page;self$", _norm(body))
    if not mm:
        raise Fail("%s: no longer `match page { <panic guards> } self.map[block] = page; self`" % where)
    guards, pos, text = {}, 0, mm.group(1)
    rx = re.compile(r"Page::(Ram|Rom)\((\w+)\) ?if ?(.+?)=>\{panic!\([^{}]*\);?\},?|_=>\{\},?")
    while pos < len(text):
        a = rx.match(text, pos)
        if not a:
            raise Fail("%s: cannot classify the arm `%s`" % (where, text[pos:pos + 50]))
        if a.group(1):
            if a.group(1) in guards:
                raise Fail("%s: two guards for Page::%s" % (where, a.group(1)))
            genv = dict(cenv, **{a.group(2): (a.group(2), "bv8"), "self.ram.len()": ("ramLen", "nat"),
                                 "self.rom.len()": ("romLen", "nat")})
            v, tv = _tr_expr(a.group(3), genv, where)
            if tv != "bool":
                raise Fail("%s: a guard of type %s" % (where, tv))
            guards[a.group(1)] = (a.group(2), v)
        pos = a.end()
    t.append("/-- `ZXMemory::remap`: the guards under which it panics (`ramLen` = `self.ram.len()`, `romLen` = `self.rom.len()`) -/")
    t.append("def remapPanics (ramLen romLen : Nat) : Page → Bool")
    for kd in ("Ram", "Rom"):
        t.append("  | .%s %s => %s" % ((kd,) + guards[kd] if kd in guards else (kd, "_", "false")))
    t += ["", "/-- the part of `ZXMemory` paging is about: the four-slot `map` and the lengths of the two arrays -/",
          "structure Mem where", "  map : List Page", "  ramLen : Nat", "  romLen : Nat", "  deriving DecidableEq, Repr", "",
          "/-- `ZXMemory::remap`: `none` = the panic; otherwise `self.map[block] = page` (the blocks in the translated callers",
          "are literals below `MEM_BLOCKS`) -/",
          "def Mem.remap (m : Mem) (block : Nat) (page : Page) : Option Mem :=",
          "  if remapPanics m.ramLen m.romLen page then none else some { m with map := m.map.set block page }", ""]
    return cenv


def _machine_enum(repo):
    src = blank_comments(read(repo, "rustzx-core/src/zx/machine/mod.rs"))
    m = re.search(r"\benum\s+ZXMachine\s*\{([^}]*)\}", src)
    if not m:
        raise Skip("enum ZXMachine not found")
    vs = [x.strip() for x in m.group(1).split(",") if x.strip()]
    if vs != ["Sinclair48K", "Sinclair128K"]:
        raise Fail("rustzx-core/src/zx/machine/mod.rs: enum ZXMachine has variants %s" % vs)
    return vs


def _h_remap(args, env, ctx, where, ind, litvars, rest):
    if len(args) != 2 or args[1][0] != "call" or args[1][1] not in ("Page::Ram", "Page::Rom") or len(args[1][2]) != 1:
        raise Fail("%s: `self.memory.remap(..)` whose arguments are not `(block, Page::Ram(..) | Page::Rom(..))`" % where)
    b, tb = _lean(args[0], env, where)
    v, tv = _lean(args[1][2][0], env, where)
    if tb not in ("lit", "nat") or tv not in ("lit", "bv8"):
        raise Fail("%s: remap(block : %s, Page(%s))" % (where, tb, tv))
    return ("%smatch s.memory.remap %s (Page.%s %s) with\n%s| none => none\n%s| some m =>\n%s  let s := { s with memory := m }\n"
            % (ind, b, args[1][1][6:], v, ind, ind, ind)) + _m_emit(rest, env, ctx, where, ind + "  ", litvars)


def _h_switch_bank(args, env, ctx, where, ind, litvars, rest):
    if len(args) != 1:
        raise Fail("%s: switch_bank with %d arguments" % (where, len(args)))
    v, tv = _lean(args[0], env, where)
    if tv not in ("nat", "lit"):
        raise Fail("%s: switch_bank(%s)" % (where, tv))
    return "%slet s := { s with screen_shown := some %s }\n" % (ind, v) + _m_emit(rest, env, ctx, where, ind, litvars)


def _h_write_7ffd(args, env, ctx, where, ind, litvars, rest):
    if len(args) != 1:
        raise Fail("%s: write_7ffd with %d arguments" % (where, len(args)))
    v, tv = _lean(args[0], env, where)
    if tv not in ("bv8", "lit"):
        raise Fail("%s: write_7ffd(%s)" % (where, tv))
    return ("%smatch write7ffd s %s with\n%s| none => none\n%s| some s1 =>\n%s  let s := s1\n" % (ind, v, ind, ind, ind)
            + _m_emit(rest, env, ctx, where, ind + "  ", litvars))


def paging(repo):
    t = [_PAGING_HEAD]
    cenv = _memory_part(repo, t)
    ks = blank_comments(read(repo, CONTROLLER))
    machines = _machine_enum(repo)
    fields = _controller_fields(ks, ["paging_enabled", "screen_bank", "current_port_7ffd"])
    t.append("/-! ### zx/controller.rs -/")
    t.append("/-- `enum ZXMachine` -/")
    t.append("inductive Machine | %s" % " | ".join(machines))
    t.append("  deriving DecidableEq, Repr")
    t.append("/-- the fields of `ZXController` the paging methods touch; `screen_shown`: the argument of the last")
    t.append("`self.screen.switch_bank(..)` call (`none`: never called) -/")
    t.append("structure St where")
    t.append("  machine : Machine")
    t.append("  memory : Mem")
    for f in ("paging_enabled", "screen_bank", "current_port_7ffd"):
        t.append("  %s : %s" % (f, _LEANTY[fields[f]]))
    t.append("  screen_shown : Option Nat")
    t.append("  deriving DecidableEq, Repr")
    t.append("")
    # ZXController::new
    arms, field, where = _controller_new(ks)
    if sorted(arms) != sorted(machines):
        raise Fail("%s: arms %s of `match settings.machine`" % (where, sorted(arms)))
    if field("machine") != "settings.machine":
        raise Fail("%s: `machine: %s`" % (where, field("machine")))
    for mach in machines:
        loc = arms[mach]

        def resolve(f):
            x = field(f)
            return loc.get(x, x) if re.fullmatch(r"\w+", x) else x
        mem = resolve("memory")
        mm = re.fullmatch(r"ZXMemory::new\(\s*RomType::(\w+)\s*,\s*RamType::(\w+)\s*\)", mem)
        if not mm:
            raise Fail("%s: arm %s: memory is `%s`" % (where, mach, mem))
        vals = []
        for f in ("paging_enabled", "screen_bank", "current_port_7ffd"):
            v, tv = _tr_expr(resolve(f), {}, where)
            if tv != fields[f] and not (tv == "lit" and fields[f] in ("bv8", "nat")):
                raise Fail("%s: arm %s: `%s` initialised with a %s value" % (where, mach, f, tv))
            vals.append("%s := %s" % (f, v))
        t.append("/-- `ZXController::new`, arm `ZXMachine::%s` -/" % mach)
        t.append("def new_%s : St :=" % mach)
        t.append("  { machine := .%s, memory := { map := newMap_%s, ramLen := ramSize_%s, romLen := romSize_%s }," % (
            mach, mm.group(2), mm.group(2), mm.group(1)))
        t.append("    %s, screen_shown := none }" % ", ".join(vals))
    t.append("")
    env = {"self." + f: ("s." + f, ty) for f, ty in fields.items()}
    env["self.machine"] = ("s.machine", "machine")
    for mach in machines:
        env["ZXMachine::" + mach] = ("Machine." + mach, "machine")
    ctx = _MCtx(fields, devices={"memory", "screen"}, option=True,
                handlers={"self.memory.remap": _h_remap, "self.screen.switch_bank": _h_switch_bank})
    t.append(_tr_method(ks, CONTROLLER, "write_7ffd", "write7ffd", ctx, env, "St"))
    ctx.handlers = dict(ctx.handlers, **{"self.write_7ffd": _h_write_7ffd})
    t.append(_tr_method(ks, CONTROLLER, "restore_7ffd", "restore7ffd", ctx, env, "St"))
    t.append(_tr_getter(ks, CONTROLLER, "read_7ffd", "read7ffd", env, "BitVec 8", "bv8", "St"))
    t += ["", "end ZxVerif.Extracted.Paging"]
    return "\n".join(t) + "\n"


_FRAMECLOCK_HEAD = """/- GENERATED by tools/extract.py (FrameClock) from rustzx-core/src/zx/controller.rs (`wait_internal`, `new_frame`,
`int_active`, `frames_count`, `reset_frame_counter`, `restore_frame_clocks`, the clock fields of `ZXController::new`),
translated statement by statement (usize -> Nat; `self.machine.specs().x` -> `specs.x`). Do not edit. -/
set_option linter.unusedVariables false
namespace ZxVerif.Extracted.FrameClock

/-- the two fields of `ZXSpecs` the clock methods read -/
structure Specs where
  clocks_frame : Nat
  interrupt_length : Nat
  deriving DecidableEq, Repr
"""


def _h_new_frame(args, env, ctx, where, ind, litvars, rest):
    if args:
        raise Fail("%s: new_frame with arguments" % where)
    return "%slet s := newFrame specs s\n" % ind + _m_emit(rest, env, ctx, where, ind, litvars)


def frame_clock(repo):
    ks = blank_comments(read(repo, CONTROLLER))
    fields = _controller_fields(ks, ["frame_clocks", "passed_frames"])
    t = [_FRAMECLOCK_HEAD]
    t.append("/-- the clock fields of `ZXController` -/")
    t.append("structure Clk where")
    for f in ("frame_clocks", "passed_frames"):
        t.append("  %s : %s" % (f, _LEANTY[fields[f]]))
    t.append("  deriving DecidableEq, Repr")
    t.append("")
    _, field, where = _controller_new(ks)
    vals = []
    for f in ("frame_clocks", "passed_frames"):
        v, tv = _tr_expr(field(f), {}, where)
        if tv not in ("lit", fields[f]):
            raise Fail("%s: `%s` initialised with a %s value" % (where, f, tv))
        vals.append("%s := %s" % (f, v))
    t.append("/-- `ZXController::new` -/")
    t.append("def newClk : Clk := { %s }" % ", ".join(vals))
    env = {"self." + f: ("s." + f, ty) for f, ty in fields.items()}
    env["specs.clocks_frame"] = ("specs.clocks_frame", "nat")
    env["specs.interrupt_length"] = ("specs.interrupt_length", "nat")
    sp = ["(specs : Specs)"]
    ctx = _MCtx(fields, readonly={"self.frame_pos"})
    t.append(_tr_method(ks, CONTROLLER, "new_frame", "newFrame", ctx, env, "Clk", sp))
    ctx.handlers = {"self.new_frame": _h_new_frame}
    t.append(_tr_method(ks, CONTROLLER, "wait_internal", "waitInternal", ctx, env, "Clk", sp))
    t.append(_tr_getter(ks, CONTROLLER, "int_active", "intActive", env, "Bool", "bool", "Clk", sp))
    t.append(_tr_getter(ks, CONTROLLER, "frames_count", "framesCount", env, "Nat", "nat", "Clk"))
    ctx.handlers = {}
    t.append(_tr_method(ks, CONTROLLER, "reset_frame_counter", "resetFrameCounter", ctx, env, "Clk"))
    try:
        t.append(_tr_method(ks, CONTROLLER, "restore_frame_clocks", "restoreFrameClocks", ctx, env, "Clk", sp))
    except Skip:
        pass   # a later addition to the controller; its absence is no change of the clock
    t += ["", "end ZxVerif.Extracted.FrameClock"]
    return "\n".join(t) + "\n"


# ---- VtxLayout ---------------------------------------------------------------------------------------
# vtx/src/lib.rs (`Vtx::load`, `frames_count`, `frame_registers`) and vtx/src/player.rs (`Player::new`,
# `update_ay`, `play`): the fixed header read by read, the validity tests, the strings block, the LH5
# chunking, the un-transposition index expression, samples per frame, the R13 rule, the write order and the
# frame-advance arithmetic of the two sample loops — as translated expressions (C20).

VTX_LIB = "vtx/src/lib.rs"
VTX_PLAYER = "vtx/src/player.rs"

_VTX_FIELDS = {"chip": "magic", "stereo": "stereo", "loop_start_frame": "loopStart", "frequency": "frequency",
               "player_frequency": "playerFrequency", "year": "year", "#size": "size"}
_VTX_ORDER = ["magic", "stereo", "loopStart", "frequency", "playerFrequency", "year", "size"]


def _stmt_start(t, k):
    """offset of the statement of the normalised text `t` that contains offset k (after the last `;`/`{`/`}` at depth 0)"""
    depth, j = 0, k - 1
    while j >= 0:
        c = t[j]
        if c in ")]}":
            if c == "}" and depth == 0:
                return j + 1
            depth += 1
        elif c in "([{":
            if depth == 0:
                if c == "{":
                    return j + 1
            else:
                depth -= 1
        elif c == ";" and depth == 0:
            return j + 1
        j -= 1
    return 0


def _struct_literal(t, where, name="Self"):
    """`Self{a,b:c,..}` of normalised text -> [(field, expression text)]"""
    ms = list(re.finditer(r"(?<![\w.])%s\{" % name, t))
    if len(ms) != 1:
        raise Fail("%s: the struct literal `%s { .. }` found %d times" % (where, name, len(ms)))
    body = t[ms[0].end():_match(t, ms[0].end() - 1)]
    items, depth, start = [], 0, 0
    for i, c in enumerate(body + ","):
        if c in "([{":
            depth += 1
        elif c in ")]}":
            depth -= 1
        elif c == "," and depth == 0:
            it = body[start:i]
            start = i + 1
            if it:
                f, _, e = it.partition(":")
                items.append((f, e if e else f))
    return items


def _for_loops(body, where):
    """[(pattern, iterator text, body text, offset)] of the `for .. in .. { .. }` loops of a function body, in order"""
    out = []
    for m in re.finditer(r"\bfor\s+(.+?)\s+in\s+([^{]*?)\s*\{", body, flags=re.S):
        out.append((m.group(1), " ".join(m.group(2).split()), body[m.end():_match(body, m.end() - 1)], m.start()))
    return out


def _fn_on_fields(text, fields, where, lean_name, sig, ret, env, result, doc):
    """straight-line statements on `self.<field>` -> a Lean function of the fields returning `result`"""
    for f in fields:
        text = re.sub(r"\bself\s*\.\s*%s\b" % f, f, text)
    if re.search(r"\bself\b", text):
        raise Fail("%s: `self` used beyond the fields %s in `%s`" % (where, fields, " ".join(text.split())))
    p = _P(_tokens(text + "\n" + result, where), where)
    stmts = _parse_block(p)
    if p.peek()[0] is not None:
        raise Fail("%s: unbalanced `}`" % where)
    return "/-- %s -/\ndef %s %s : %s :=\n%s" % (doc, lean_name, sig, ret, _lean_stmts(stmts, env, where, "  "))


def vtx_layout(repo):
    try:
        lib = blank_comments(read(repo, VTX_LIB), keep_strings=True)
        ply = blank_comments(read(repo, VTX_PLAYER), keep_strings=True)
    except OSError as e:
        raise Skip("%s" % e)
    t = ["/- GENERATED by tools/extract.py (VtxLayout) from vtx/src/lib.rs (`Vtx::load`, `frames_count`, `frame_registers`)",
         "and vtx/src/player.rs (`Player::new`, `update_ay`, `play`): header reads in order, validity tests, strings block,",
         "LH5 chunking, the un-transposition index, samples per frame, the R13 rule, write order and frame advance, as",
         "*translated expressions* (usize / u32 -> Nat, u8 -> BitVec 8, fully parenthesised). Do not edit. -/",
         "set_option linter.unusedVariables false", "namespace ZxVerif.Extracted.Vtx", ""]
    cenv, clines = _const_table(lib, VTX_LIB, ["AY_REGISTER_COUNT", "R13_NO_CHANGE_VALUE"])
    t += ["/-! ### vtx/src/lib.rs -/"] + [l for l in clines if re.match(r"def (AY_REGISTER_COUNT|R13_NO_CHANGE_VALUE) ", l)] + [""]
    cenv = {k: v for k, v in cenv.items() if k in ("AY_REGISTER_COUNT", "R13_NO_CHANGE_VALUE")}
    # frames_count / frame_registers
    lenv = dict(cenv, **{"self.frame_data.len()": ("len", "nat")})
    t.append(_tr_fn(lib, VTX_LIB, "frames_count", "framesCount", "Nat", lenv, ["(len : Nat)"]))
    _, _, body, line = _rust_fn(lib, VTX_LIB, "frame_registers")
    where = "%s:%d (fn frame_registers)" % (VTX_LIB, line)
    m = re.match(r"^let offset=([^;]+);if ([^{]+)\{return None;\}Some\(&self\.frame_data\[([^\]]+?)\.\.([^\]]+)\]\)$", _norm(body))
    if not m:
        raise Fail("%s: no longer `let offset = ..; if .. { return None; } Some(&self.frame_data[a..b])`" % where)
    fenv = dict(lenv, index=("index", "nat"), offset=("offset", "nat"))
    t.append("/-- `frame_registers`: where frame `index` starts, when there is no such frame, the slice returned -/")
    t.append("def frameOffset (index : Nat) : Nat := %s" % _tr_expr(m.group(1), fenv, where)[0])
    v, tv = _tr_expr(m.group(2), fenv, where)
    if tv != "bool":
        raise Fail("%s: the bounds test has type %s" % (where, tv))
    t.append("def frameMissing (offset len : Nat) : Bool := %s" % v)
    t.append("def frameSlice (offset : Nat) : Nat × Nat := (%s, %s)" % (_tr_expr(m.group(3), fenv, where)[0], _tr_expr(m.group(4), fenv, where)[0]))
    t.append("")
    # ---- Vtx::load ----
    _, _, body, line = _rust_fn(lib, VTX_LIB, "load")
    where = "%s:%d (fn load)" % (VTX_LIB, line)
    try:
        t += _vtx_load(lib, body, where, cenv)
        t += _vtx_player(ply, cenv)
    except (Skip, Fail):
        raise
    except Exception as e:
        raise Fail("%s: could not be parsed (%r)" % (where, e))
    t += ["", "end ZxVerif.Extracted.Vtx"]
    return "\n".join(t) + "\n"


def _vtx_load(lib, body, where, cenv):
    t = []
    n = _norm(body)
    cut = n.find("reader.stream_position()")
    if cut < 0:
        raise Skip("load: `reader.stream_position()` (start of the strings block) not found")
    head = n[:cut]
    # the struct literal tells which local is which field
    lit = _struct_literal(n, where)
    local_field = {}
    for f, e in lit:
        if re.fullmatch(r"\w+", e):
            local_field[e] = f
    # the local that bounds the decode loop is the unpacked size
    ms = re.findall(r"while (\w+)\.len\(\)<(\w+) as usize\{", n)
    if len(ms) != 1:
        raise Fail("%s: the decode loop `while buf.len() < size as usize` found %d times" % (where, len(ms)))
    tbuf, size_local = ms[0]
    if size_local in local_field:
        raise Fail("%s: the unpacked size `%s` is also a field of the result" % (where, size_local))
    local_field[size_local] = "#size"
    reads, magic_local = [], None
    for m in re.finditer(r"reader\.(\w+)", head):
        k, call = m.start(), m.group(1)
        s0 = _stmt_start(head, k)
        stmt = head[s0:head.find(";", k) if head.find(";", k) >= 0 else len(head)]
        mm = re.match(r"^reader\.read_exact\(&mut (\w+)\)", head[k:])
        if mm:
            arr = re.findall(r"let mut %s=\[0u8;([^\]]+)\];" % mm.group(1), head[:k])
            if len(arr) != 1:
                raise Fail("%s: `read_exact(&mut %s)`: the array is not `let mut %s = [0u8; N]`" % (where, mm.group(1), mm.group(1)))
            magic_local = mm.group(1)
            reads.append((magic_local, int(_tr_expr(arr[0], cenv, where)[0]), True, k))
            continue
        mm = re.match(r"^reader\.read_(u8|u16|u32)(?:::<(LittleEndian|BigEndian)>)?\(\)\?", head[k:])
        if not mm or (mm.group(1) != "u8") != bool(mm.group(2)):
            raise Fail("%s: a reader call the extractor cannot classify: `%s`" % (where, head[k:k + 50]))
        width = {"u8": 1, "u16": 2, "u32": 4}[mm.group(1)]
        call_txt = head[k:k + mm.end()]
        ml = re.match(r"^let (\w+)=(.*)$", stmt, flags=re.S)
        if not ml:
            raise Fail("%s: `%s` is not bound by a `let`: `%s`" % (where, call_txt, stmt[:60]))
        name, rhs = ml.group(1), ml.group(2)
        if rhs != call_txt[:-1] + "?" and not (rhs.startswith("Stereo::from_u8(" + call_txt + ")") and width == 1):
            raise Fail("%s: `%s` is used inside an expression the extractor cannot classify: `%s`" % (where, call_txt, stmt[:70]))
        reads.append((name, width, mm.group(2) != "BigEndian", k))
    # magic -> chip
    mm = re.search(r"let (\w+)=match %s\{(.*?)\};" % re.escape(magic_local or "?"), head, flags=re.S)
    if not mm:
        raise Fail("%s: `let chip = match magic { .. }` not found" % where)
    chip_local = mm.group(1)
    arms = re.findall(r"\[((?:b'(?:\\.|[^'])',?)+)\]=>SoundChip::(\w+),", mm.group(2))
    rest = re.sub(r"\[((?:b'(?:\\.|[^'])',?)+)\]=>SoundChip::(\w+),", "", mm.group(2))
    if not arms or not re.fullmatch(r"_=>\{return Err\(VtxError::InvalidHeader\{[^{}]*\}\);\},?", rest):
        raise Fail("%s: the arms of `match magic` are not byte-string patterns and a rejecting `_`" % where)
    magics = []
    for pat, chip in arms:
        magics.append(([_rust_str(x, where)[0] for x in re.findall(r"b'((?:\\.|[^'])+)'", pat)], chip))
    fields = []
    for name, width, le, k in reads:
        loc = chip_local if name == magic_local else name
        f = local_field.get(loc)
        if f is None or f not in _VTX_FIELDS:
            raise Fail("%s: the extractor cannot tell which header field `%s` is" % (where, name))
        fields.append((_VTX_FIELDS[f], width, le, name))
    t.append("/-- what a read of the fixed header is stored as -/")
    t.append("inductive Field | %s\n  deriving DecidableEq, Repr" % " | ".join(_VTX_ORDER))
    t.append("/-- `Vtx::load`: the reads before the strings block, in order: (field, bytes, little-endian) -/")
    t.append("def header : List (Field × Nat × Bool) := [%s]" % ", ".join(
        "(.%s, %d, %s)" % (f, w, "true" if le else "false") for f, w, le, _ in fields))
    t.append("/-- the arms of `match magic`: (bytes, `SoundChip` variant); anything else is rejected -/")
    t.append("def magics : List (List Nat × String) := [%s]" % ", ".join(
        '([%s], "%s")' % (", ".join(map(str, b)), c) for b, c in magics))
    # stereo byte: num_derive::FromPrimitive on a field-less enum without explicit discriminants
    me = re.search(r"#\[derive\(([^\]]*)\)\]\s*(?:#\[[^\]]*\]\s*)*pub\s+enum\s+Stereo\s*\{(.*?)\}", lib, flags=re.S)
    if not me:
        raise Skip("enum Stereo not found in %s" % VTX_LIB)
    if "FromPrimitive" not in me.group(1):
        raise Fail("%s: enum Stereo no longer derives FromPrimitive" % VTX_LIB)
    variants = [x.strip() for x in me.group(2).split(",") if x.strip()]
    if not all(re.fullmatch(r"\w+", x) for x in variants):
        raise Fail("%s: enum Stereo has variants with data or explicit discriminants: %s" % (VTX_LIB, variants))
    t.append("/-- `enum Stereo` (derives `FromPrimitive`): `Stereo::from_u8(b)` is `Some` iff `b` < the number of variants -/")
    t.append("def stereoVariants : List String := [%s]" % ", ".join('"%s"' % x for x in variants))
    t.append("def stereoAccepted (b : BitVec 8) : Bool := decide (b.toNat < stereoVariants.length)")
    # validity tests on header fields
    tests = re.findall(r"if ([^{}]+)\{return Err\(VtxError::InvalidHeader\{[^{}]*\}\);\}", head)
    types = {"size": "nat", "playerFrequency": "bv8", "loopStart": "bv16", "year": "bv16", "frequency": "nat"}
    seen = []
    for cond in tests:
        used = [(nm, f) for f, _, _, nm in fields if re.search(r"(?<![\w.])%s\b" % re.escape(nm), cond)]
        if len(used) != 1 or used[0][1] not in types:
            raise Fail("%s: a header test the extractor cannot classify: `if %s`" % (where, cond))
        nm, f = used[0]
        v, tv = _tr_expr(cond, dict(cenv, **{nm: (f, types[f])}), where)
        if tv != "bool":
            raise Fail("%s: `if %s` has type %s" % (where, cond, tv))
        seen.append(f)
        t.append("/-- `load` rejects the file when this holds of the `%s` field -/" % f)
        t.append("def %sRejected (%s : %s) : Bool := %s" % (f, f, _LEANTY[types[f]], v))
    for f in ("size", "playerFrequency"):
        if seen.count(f) != 1:
            raise Skip("load: %d validity tests on the %s field" % (seen.count(f), f))
    if len(re.findall(r"\bif\b", head)) != len(tests):
        raise Fail("%s: an `if` before the strings block that is not `if .. { return Err(InvalidHeader) }`" % where)
    # strings block
    sb = n[cut:]
    consts = dict(re.findall(r"const (\w+):usize=([^;]+);", n))
    for c in ("READ_STRING_BUFFER_SIZE", "EXPECTED_STRINGS_COUNT", "DECODE_CHUNK_SIZE"):
        if c not in consts:
            raise Skip("load: const %s not found" % c)
    senv = dict(cenv)
    for c in ("READ_STRING_BUFFER_SIZE", "EXPECTED_STRINGS_COUNT", "DECODE_CHUNK_SIZE"):
        t.append("/-- `%s` -/" % c)
        t.append("def %s : Nat := %s" % (c, _tr_expr(consts[c], senv, where)[0]))
        senv[c] = (c, "nat")
    ml = re.findall(r"while null_terminators_read!=([^{]+)\{", sb)
    mb = re.findall(r"if null_terminators_read==([^{]+)\{break;\}", sb)
    mc = re.findall(r"if strings\.len\(\)!=([^{]+)\{return Err", sb)
    if len(ml) != 1 or len(mb) != 1 or len(mc) != 1:
        raise Fail("%s: the terminator-counting loop / the string count test are not where they were" % where)
    t.append("/-- the scan stops after this many terminators (outer loop, inner loop), and this many strings are required -/")
    t.append("def stringsScanUntil : Nat × Nat := (%s, %s)" % (_tr_expr(ml[0], senv, where)[0], _tr_expr(mb[0], senv, where)[0]))
    t.append("def stringsRequired : Nat := %s" % _tr_expr(mc[0], senv, where)[0])
    terms = re.findall(r"b'((?:\\.|[^'])+)'", sb)
    sites = len(re.findall(r"\.position\(\|(\w+)\|\*\1==b'", sb)) + len(re.findall(r"\.split\(\|(\w+)\|\*\1==b'", sb)) \
        + len(re.findall(r"reader\.read_u8\(\)\?!=b'", sb))
    if not terms or sites != len(terms):
        raise Fail("%s: a byte literal of the strings block is used in a way the extractor cannot classify" % where)
    tv = {_rust_str(x, where)[0] for x in terms}
    if len(tv) != 1:
        raise Fail("%s: the strings block uses different terminator bytes %s" % (where, sorted(tv)))
    t.append("/-- the byte the scan, the final test and the split look for -/")
    t.append("def stringTerminator : Nat := %d" % tv.pop())
    pops = re.findall(r"let (\w+)=strings\.pop\(\)\.unwrap\(\);", sb)
    names = []
    for p_ in pops:
        if p_ not in local_field:
            raise Fail("%s: the popped string `%s` is not stored in the result" % (where, p_))
        names.append(local_field[p_])
    t.append("/-- the strings in file order (`strings.pop()` takes them from the back) -/")
    t.append("def stringOrder : List String := [%s]" % ", ".join('"%s"' % x for x in reversed(names)))
    # LH5 decode in chunks
    denv = dict(senv, **{size_local: ("size", "nat"), "decoded": ("decoded", "nat"), "chunk": ("chunk", "nat"),
                         tbuf + ".len()": ("len", "nat")})
    ms = re.search(r"while (%s\.len\(\)<%s as usize)\{" % (re.escape(tbuf), re.escape(size_local)), n)
    lb = n[ms.end():_match(n, ms.end() - 1)]
    mm = re.match(r"^let decoded=%s\.len\(\);let chunk=([^;]+);%s\.resize\(([^,]+),0u8\);decoder\.fill_buffer\(&mut %s\[decoded\.\.\]\)"
                  r"\.map_err\(\|_\|VtxError::DecompressFailure\)\?;$" % ((re.escape(tbuf),) * 3), lb)
    if not mm:
        raise Fail("%s: the decode loop is no longer `decoded = len; chunk = ..; resize(.., 0); fill_buffer(&mut buf[decoded..])?`" % where)
    t.append("/-- the LH5 decode loop: goes on while; bytes requested in one round; buffer length after the round -/")
    t.append("def decodeContinues (len size : Nat) : Bool := %s" % _tr_expr(ms.group(1), denv, where)[0])
    t.append("def decodeChunk (size decoded : Nat) : Nat := %s" % _tr_expr(mm.group(1), denv, where)[0])
    t.append("def decodeResize (decoded chunk : Nat) : Nat := %s" % _tr_expr(mm.group(2), denv, where)[0])
    # un-transposition
    mf = re.findall(r"let (\w+)=%s\.len\(\)/([^;]+);" % re.escape(tbuf), n)
    if len(mf) != 1:
        raise Fail("%s: `let frames_count = %s.len() / ..` found %d times" % (where, tbuf, len(mf)))
    fc = mf[0][0]
    tenv = dict(cenv, **{tbuf + ".len()": ("len", "nat")})
    t.append("/-- `let %s = %s.len() / ..` -/" % (fc, tbuf))
    t.append("def transposeFrames (len : Nat) : Nat := %s" % _tr_expr("%s.len()/%s" % (tbuf, mf[0][1]), tenv, where)[0])
    loops = [l for l in _for_loops(body, where) if "push" in l[2]]
    if len(loops) != 1:
        raise Fail("%s: %d `for` loops that push bytes (expected the one un-transposition loop)" % (where, len(loops)))
    var, it, lbody, _ = loops[0]
    mi = re.fullmatch(r"(.+?)\s*\.\.\s*(.+)", it)
    if not re.fullmatch(r"\w+", var) or not mi:
        raise Fail("%s: the un-transposition loop is not `for idx in a..b`" % where)
    mp = re.search(r"(\w+)\s*\.\s*push\s*\(\s*%s\s*\[(.*)\]\s*\)\s*;\s*$" % re.escape(tbuf), lbody, flags=re.S)
    if not mp or local_field.get(mp.group(1)) != "frame_data" or "push" in lbody[:mp.start()]:
        raise Fail("%s: the loop body does not end with `frame_data.push(%s[..]);`" % (where, tbuf))
    t.append("/-- the un-transposition loop: the range of `%s` … -/" % var)
    t.append("def transposeRange (len : Nat) : Nat × Nat := (%s, %s)" % (_tr_expr(mi.group(1), tenv, where)[0], _tr_expr(mi.group(2), tenv, where)[0]))
    uenv = dict(cenv, **{var: (var, "nat"), fc: (fc, "nat")})
    p = _P(_tokens(lbody[:mp.start()] + "\n" + mp.group(2), where), where)
    stmts = _parse_block(p)
    t.append("/-- … and the loop body: byte `%s` of `frame_data` is this byte of the decoded (register-major) data -/" % var)
    t.append("def transposeSrc (%s %s : Nat) : Nat :=\n%s" % (fc, var, _lean_stmts(stmts, uenv, where, "  ")))
    return t


def _vtx_player(ply, cenv):
    t = ["/-! ### vtx/src/player.rs -/"]
    # Player::new
    _, _, body, line = _rust_fn(ply, VTX_PLAYER, "new")
    where = "%s:%d (fn new)" % (VTX_PLAYER, line)
    n = _norm(body)
    ms = re.findall(r"let samples_per_frame=([^;]+);", n)
    if len(ms) != 1:
        raise Skip("new: `let samples_per_frame = ..` not found")
    env = {"sample_rate": ("sampleRate", "nat"), "vtx.player_frequency": ("playerFrequency", "bv8")}
    t.append("/-- `Player::new`: `samples_per_frame` -/")
    t.append("def samplesPerFrame (sampleRate : Nat) (playerFrequency : BitVec 8) : Nat := %s" % _tr_expr(ms[0], env, where)[0])
    lit = dict(_struct_literal(n, where))
    for f in ("frame", "frame_sample", "samples_per_frame"):
        if f not in lit:
            raise Fail("%s: field `%s` is not initialised in `Self { .. }`" % (where, f))
    if lit["samples_per_frame"] != "samples_per_frame":
        raise Fail("%s: `samples_per_frame: %s`" % (where, lit["samples_per_frame"]))
    t.append("/-- `Player::new`: the cursor starts at (frame, frame_sample) -/")
    t.append("def initCursor : Nat × Nat := (%s, %s)" % (_tr_expr(lit["frame"], {}, where)[0], _tr_expr(lit["frame_sample"], {}, where)[0]))
    # update_ay
    _, _, body, line = _rust_fn(ply, VTX_PLAYER, "update_ay")
    where = "%s:%d (fn update_ay)" % (VTX_PLAYER, line)
    n = _norm(body)
    m = re.match(r"^if let Some\((\w+)\)=self\.vtx\.frame_registers\(self\.frame\)\{for\((\w+),(\w+)\)in (\w+)((?:\.\w+\(\))+)\{"
                 r"if ([^{}]+)\{continue;\}self\.ay\.write_register\(([^,]+),([^)]+)\);\}return true;\}false$", n)
    if not m or m.group(4) != m.group(1):
        raise Fail("%s: no longer `if let Some(frame) = frame_registers(self.frame) { for (idx, value) in frame… "
                   "{ if .. { continue; } write_register(.., ..); } return true; } false`" % where)
    idx, val, chain = m.group(2), m.group(3), m.group(5)
    order = {".iter().copied().enumerate()": "ascending", ".iter().enumerate()": "ascending",
             ".iter().copied().enumerate().rev()": "descending", ".iter().enumerate().rev()": "descending"}.get(chain)
    if order is None:
        raise Fail("%s: the iterator `frame%s` is not one the extractor knows" % (where, chain))
    if ".copied()" not in chain:
        raise Fail("%s: `value` is a reference (`.copied()` is gone): the comparison cannot be translated as is" % where)
    t.append("/-- `update_ay`: `for (idx, value) in frame%s`: the (idx, value) pairs in the order visited -/" % chain)
    t.append("def writeOrder (regs : List (BitVec 8)) : List (BitVec 8 × Nat) := %s" % (
        "regs.zipIdx" if order == "ascending" else "regs.zipIdx.reverse"))
    wenv = dict(cenv, **{idx: ("idx", "nat"), val: ("value", "bv8")})
    v, tv = _tr_expr(m.group(6), wenv, where)
    if tv != "bool":
        raise Fail("%s: the skip test has type %s" % (where, tv))
    t.append("/-- `update_ay`: the register is left alone (`continue`) when -/")
    t.append("def skipWrite (idx : Nat) (value : BitVec 8) : Bool := %s" % v)
    a, ta = _tr_expr(m.group(7), wenv, where)
    b, tb = _tr_expr(m.group(8), wenv, where)
    if ta != "bv8" or tb != "bv8":
        raise Fail("%s: write_register(%s, %s) has argument types %s, %s" % (where, m.group(7), m.group(8), ta, tb))
    t.append("/-- `update_ay`: otherwise `write_register(writeAddr, writeValue)` -/")
    t.append("def writeAddr (idx : Nat) (value : BitVec 8) : BitVec 8 := %s" % a)
    t.append("def writeValue (idx : Nat) (value : BitVec 8) : BitVec 8 := %s" % b)
    # play
    _, _, body, line = _rust_fn(ply, VTX_PLAYER, "play")
    where = "%s:%d (fn play)" % (VTX_PLAYER, line)
    n = _norm(body)
    m = re.match(r"^let mut (\w+)=0;if self\.stereo\{for (\w+) in samples\.chunks_exact_mut\(([^)]+)\)\{(.*)\}([^{};]+)\}"
                 r"else\{for (\w+) in samples\{(.*)\}([^{};]+)\}$", n)
    if not m:
        raise Fail("%s: no longer `let mut n = 0; if self.stereo { for s in samples.chunks_exact_mut(k) {..} r } "
                   "else { for s in samples {..} r }`" % where)
    cnt = m.group(1)
    penv = {cnt: ("produced", "nat")}
    t.append("/-- `play`: buffer slots one loop iteration takes (stereo: `chunks_exact_mut`, mono: one) -/")
    t.append("def strideStereo : Nat := %s" % _tr_expr(m.group(3), {}, where)[0])
    t.append("def strideMono : Nat := 1")
    for tag, sv, lb, ret in (("Stereo", m.group(2), m.group(4), m.group(5)), ("Mono", m.group(6), m.group(7), m.group(8))):
        mm = re.match(r"^if ([^{}]+?)&&!self\.update_ay\(\)\{return ([^;{}]+);\}let (\w+)=self\.ay\.next_sample\(\);(.*?)%s\+=1;(.*)$"
                      % re.escape(cnt), lb)
        if not mm:
            raise Fail("%s: the %s loop no longer starts `if .. && !self.update_ay() { return ..; } let s = self.ay.next_sample(); "
                       ".. %s += 1;`" % (where, tag.lower(), cnt))
        if _squash(mm.group(2)) != _squash(ret):
            raise Fail("%s: the %s loop returns `%s` early but `%s` at the end" % (where, tag.lower(), mm.group(2), ret))
        smp = mm.group(3)
        stores = mm.group(4)
        if tag == "Stereo":
            st = re.findall(r"%s\[(\d+)\]=S::from_aym_sample\(%s\.(\w+)\);" % (re.escape(sv), re.escape(smp)), stores)
            left = re.sub(r"%s\[(\d+)\]=S::from_aym_sample\(%s\.(\w+)\);" % (re.escape(sv), re.escape(smp)), "", stores)
        else:
            st = [("0", x) for x in re.findall(r"\*%s=S::from_aym_sample\(%s\.(\w+)\);" % (re.escape(sv), re.escape(smp)), stores)]
            left = re.sub(r"\*%s=S::from_aym_sample\(%s\.(\w+)\);" % (re.escape(sv), re.escape(smp)), "", stores)
        if left or not st:
            raise Fail("%s: the %s loop stores samples in a way the extractor cannot classify: `%s`" % (where, tag.lower(), stores[:60]))
        v, tv = _tr_expr(mm.group(1), {"self.frame_sample": ("frameSample", "nat"), "self.frame": ("frame", "nat"),
                                       "self.samples_per_frame": ("spf", "nat")}, where)
        if tv != "bool":
            raise Fail("%s: the update test has type %s" % (where, tv))
        t.append("/-- `play`, %s loop: `update_ay` is called before the sample iff -/" % tag.lower())
        t.append("def needsUpdate%s (frame frameSample spf : Nat) : Bool := %s" % (tag, v))
        t.append("/-- … buffer slot and channel of each store of one iteration -/")
        t.append("def stores%s : List (Nat × String) := [%s]" % (tag, ", ".join('(%s, "%s")' % (i, ch) for i, ch in st)))
        t.append(_fn_on_fields(mm.group(5), ["frame_sample", "frame", "samples_per_frame"], where, "advance" + tag,
                               "(frame frame_sample samples_per_frame : Nat)", "Nat × Nat",
                               {"frame": ("frame", "nat"), "frame_sample": ("frame_sample", "nat"),
                                "samples_per_frame": ("samples_per_frame", "nat")}, "(frame, frame_sample)",
                               "… the cursor (frame, frame_sample) after the sample"))
        t.append("/-- … the value `play` returns after `produced` iterations -/")
        t.append("def returned%s (produced : Nat) : Nat := %s" % (tag, _tr_expr(ret, penv, where)[0]))
    return t


# ---- FastLoad ------------------------------------------------------------------------------------------
# rustzx-core/src/emulator/fastload/tap.rs (`fast_load_tap`), translated statement by statement (C10): the
# prologue (block request / AF swap, in source order), the register reads that initialise the locals, one
# iteration of the `'loader` loop for `Some(byte)` and for `None` (assignments become shadowing `let`s, a
# `break` / `continue` / the end of the body ends a path with the locals, the store done through
# `write_internal` and whether the loop goes on), and the write-back after the loop.

FASTLOAD_RS = "rustzx-core/src/emulator/fastload/tap.rs"
Z80_REGS_RS = "rustzx-z80/src/registers.rs"

_FL_VARS = [("f", "bv8"), ("acc", "bv8"), ("dest", "bv16"), ("length", "bv16"), ("parity_acc", "bv8"),
            ("current_byte", "bv8"), ("result_flags", "opt8")]
_FL_TY = dict(_LEANTY, opt8="Option (BitVec 8)")
_FL_REGS8 = ["a", "f", "a'", "f'"]
_FL_REGS16 = ["bc", "de", "hl", "ix", "iy", "sp", "pc"]
_FL_GET = {"get_flags": "f", "get_acc": "a", "get_hl": "hl", "get_de": "de", "get_bc": "bc", "get_ix": "ix",
           "get_iy": "iy", "get_sp": "sp"}
_FL_SET = {"set_flags": "f", "set_acc": "a", "set_hl": "hl", "set_de": "de", "set_bc": "bc", "set_ix": "ix",
           "set_iy": "iy", "set_sp": "sp"}


def _fl_block(p):
    """statements of the fast loader up to the closing `}` (not consumed)"""
    out = []
    while p.peek()[0] is not None and not p.at("}"):
        k, x = p.peek()
        if x == "let":
            p.eat()
            if p.at("("):  # let (mut a, mut b) = (e1, e2);
                p.eat()
                names = []
                while not p.at(")"):
                    if p.at("mut"):
                        p.eat()
                    names.append(p.eat())
                    if p.at(","):
                        p.eat()
                p.eat(")"); p.eat("=")
                e = p.expr()
                p.eat(";")
                if e[0] != "tuple" or len(e[1]) != len(names):
                    raise Fail("%s: tuple pattern bound to something other than a tuple of the same length" % p.where)
                out += [("let", nm, x_) for nm, x_ in zip(names, e[1])]
                continue
            if p.at("mut"):
                p.eat()
            name = p.eat()
            if p.at(":"):
                p.eat(); p.eat()
            if p.at(";"):
                p.eat()
                out.append(("decl", name))
                continue
            p.eat("=")
            e = p.expr()
            p.eat(";")
            out.append(("let", name, e))
            continue
        if x == "if":
            out.append(_fl_if(p))
            continue
        if x == "loop":
            p.eat(); p.eat("{")
            b = _fl_block(p)
            p.eat("}")
            out.append(("loop", b))
            continue
        if x in ("break", "continue"):
            p.eat(); p.eat(";")
            out.append((x,))
            continue
        if x == "return":
            p.eat()
            e = p.expr()
            p.eat(";")
            out.append(("return", e))
            continue
        if k == "id" and p.peek(1)[1] in ("=", "+=", "-=", "^=", "|=", "&="):
            name = p.eat(); op = p.eat()
            e = p.expr()
            p.eat(";")
            if op != "=":
                e = ("bin", op[0], ("var", name), e)
            out.append(("set", name, e))
            continue
        e = p.expr()
        if p.at(";"):
            p.eat()
            if e[0] != "call":
                raise Fail("%s: expression statement that is not a call" % p.where)
            out.append(("do", e))
        else:
            out.append(("tail", e))
    return out


def _fl_if(p):
    p.eat("if")
    if p.at("let"):
        p.eat()
        pat = p.expr()
        p.eat("=")
        c = ("iflet", pat, p.expr())
    else:
        c = p.expr()
    p.eat("{")
    th = _fl_block(p)
    p.eat("}")
    el = []
    if p.at("else"):
        p.eat()
        if p.at("if"):
            el = [_fl_if(p)]
        else:
            p.eat("{")
            el = _fl_block(p)
            p.eat("}")
    return ("if", c, th, el)


def _fl_value(e, want, env, where):
    """Lean text of expression `e`, which has to have type `want`"""
    if want == "opt8":
        if e == ("var", "None"):
            return "none"
        if e[0] == "call" and e[1] == "Some" and len(e[2]) == 1:
            return "(some %s)" % _fl_value(e[2][0], "bv8", env, where)
        raise Fail("%s: an Option value that is neither `Some(..)` nor `None`" % where)
    v, tv = _lean(e, env, where)
    if tv == "lit":
        return "(%s : %s)" % (v, _LEANTY[want])
    if tv != want:
        raise Fail("%s: a %s value where a %s is expected (`%s`)" % (where, tv, want, v))
    return v


_FL_OUT = "⟨{ %s }, store, %%s⟩" % ", ".join("%s := %s" % (n, n) for n, _ in _FL_VARS)


def _fl_iter(stmts, env, where, ind, stored=False):
    """one loop iteration in continuation style; every path ends with the locals, the store, `.again` / `.leave`"""
    if not stmts:
        return ind + _FL_OUT % ".again" + "\n"
    s, rest = stmts[0], stmts[1:]
    if s[0] == "break":
        return ind + _FL_OUT % ".leave" + "\n"
    if s[0] == "continue":
        return ind + _FL_OUT % ".again" + "\n"
    if s[0] == "set":
        ty = dict(_FL_VARS).get(s[1])
        if ty is None:
            raise Fail("%s: assignment to `%s`, which is not one of the loader's locals" % (where, s[1]))
        if stored and "memory.read" in repr(s[2]):
            raise Fail("%s: memory is read after the store of the same iteration" % where)
        return "%slet %s : %s := %s\n" % (ind, s[1], _FL_TY[ty], _fl_value(s[2], ty, env, where)) + \
            _fl_iter(rest, env, where, ind, stored)
    if s[0] == "do":
        if s[1][1] == "emulator.controller.write_internal" and len(s[1][2]) == 2:
            if stored:
                raise Fail("%s: two stores in one iteration" % where)
            return "%slet store : Option (BitVec 16 × BitVec 8) := some (%s, %s)\n" % (
                ind, _fl_value(s[1][2][0], "bv16", env, where), _fl_value(s[1][2][1], "bv8", env, where)) + \
                _fl_iter(rest, env, where, ind, True)
        raise Fail("%s: call `%s(..)` inside the loop" % (where, s[1][1]))
    if s[0] == "if":
        if isinstance(s[1], tuple) and s[1][0] == "iflet":
            raise Fail("%s: nested `if let` inside the loop" % where)
        c, tc = _lean(s[1], env, where)
        if tc != "bool":
            raise Fail("%s: `if` on a non-Boolean" % where)
        return "%sif %s then\n%s%selse\n%s" % (ind, c, _fl_iter(s[2] + rest, env, where, ind + "  ", stored), ind,
                                               _fl_iter(s[3] + rest, env, where, ind + "  ", stored))
    raise Fail("%s: statement `%s` inside the loop" % (where, s[0]))


def _fl_rename(x, mp):
    """the statement / expression tree with the locals renamed"""
    if isinstance(x, list):
        return [_fl_rename(y, mp) for y in x]
    if isinstance(x, tuple):
        if len(x) >= 2 and x[0] in ("var", "set", "let", "decl") and isinstance(x[1], str):
            return (x[0], mp.get(x[1], x[1])) + tuple(_fl_rename(y, mp) for y in x[2:])
        if len(x) == 3 and x[0] == "call" and isinstance(x[1], str):
            head, dot, rest = x[1].partition(".")
            return ("call", mp.get(head, head) + dot + rest if dot else x[1], _fl_rename(x[2], mp))
        return tuple(_fl_rename(y, mp) for y in x)
    return x


def fast_load(repo):
    try:
        raw = read(repo, FASTLOAD_RS)
    except OSError:
        raise Skip("%s not found" % FASTLOAD_RS)
    src = blank_comments(raw)
    _, _, body, line = _rust_fn(src, FASTLOAD_RS, "fast_load_tap")
    where = "%s:%d (fn fast_load_tap)" % (FASTLOAD_RS, line)
    try:
        return _fast_load(repo, body, where)
    except (Skip, Fail):
        raise
    except Exception as e:
        raise Fail("%s: could not be parsed (%r)" % (where, e))


def _fast_load(repo, body, where):
    # flag masks of rustzx-z80
    try:
        regs = blank_comments(read(repo, Z80_REGS_RS))
    except OSError:
        raise Skip("%s not found" % Z80_REGS_RS)
    flags = {}
    for nm in ("FLAG_CARRY", "FLAG_ZERO"):
        m = re.search(r"\bconst\s+%s\s*:\s*u8\s*=\s*(0b[01_]+|0x[0-9A-Fa-f_]+|\d+)\s*;" % nm, regs)
        if not m:
            raise Skip("const %s not found in %s" % (nm, Z80_REGS_RS))
        flags[nm] = num(m.group(1))
    # `?` (error propagation), loop labels, `&mut`, register-name arguments, from_le_bytes: rewritten to plain calls
    for need in (r"tape\s*\.\s*next_block\s*\(\s*\)\s*\?", r"tape\s*\.\s*next_block_byte\s*\(\s*\)\s*\?"):
        if len(re.findall(need, body)) != 1:
            raise Skip("fast_load_tap: `%s` not found exactly once" % need.replace(r"\s*", "").replace("\\", ""))
    b = body.replace("?", "")
    b = re.sub(r"(?<=[\w)])\s*\.\s*(?=[A-Za-z_])", ".", b)   # method chains broken over lines
    b = re.sub(r"'\w+\s*:\s*loop\b", "loop", b)
    b = re.sub(r"\b(break|continue)\s+'\w+", r"\1", b)
    b = re.sub(r"&\s*mut\s+", "", b)
    b = re.sub(r"\bOk\s*\(\s*\(\s*\)\s*\)", "Ok(UNIT)", b)
    b = re.sub(r"\bget_reg_16\s*\(\s*RegName16::(\w+)\s*\)", lambda m: "get_%s()" % m.group(1).lower(), b)
    b = re.sub(r"\bset_reg_16\s*\(\s*RegName16::(\w+)\s*,", lambda m: "set_%s(" % m.group(1).lower(), b)
    b = re.sub(r"\bu16::from_le_bytes\s*\(\s*\[\s*([\w.]+)\s*,\s*([\w.]+)\s*,?\s*\]\s*\)", r"u16_from_le_bytes(\1, \2)", b)
    b = re.sub(r"\bu16::from_be_bytes\s*\(\s*\[\s*([\w.]+)\s*,\s*([\w.]+)\s*,?\s*\]\s*\)", r"u16_from_le_bytes(\2, \1)", b)
    p = _P(_tokens(b, where), where)
    stmts = _fl_block(p)
    if p.peek()[0] is not None:
        raise Fail("%s: unbalanced `}`" % where)
    env = {nm: (nm, "bv8") for nm in flags}
    env["u16_from_le_bytes(2)"] = ("(BitVec.ofNat 16 ((%s).toNat + 256 * (%s).toNat))", ("bv8", "bv8"), "bv16")
    for g, r in _FL_GET.items():
        env["emulator.cpu.regs.%s()" % g] = ("r.%s" % r, "bv8" if r in _FL_REGS8 else "bv16")
    # ---- prologue -------------------------------------------------------------------------------------
    pro, k = [], 0
    while k < len(stmts) and stmts[k][0] not in ("let", "decl"):
        s = stmts[k]
        if s[0] == "if" and s[1] == ("un", "!", ("call", "emulator.controller.tape.next_block", [])) and not s[3] \
                and s[2] == [("return", ("call", "Ok", [("var", "UNIT")]))]:
            pro.append("nextBlockElseReturn")
        elif s == ("do", ("call", "emulator.cpu.regs.swap_af_alt", [])):
            pro.append("swapAf")
        else:
            raise Fail("%s: a statement before the locals that is neither the block request nor the AF swap" % where)
        k += 1
    if sorted(pro) != ["nextBlockElseReturn", "swapAf"]:
        raise Fail("%s: the prologue is %s (expected one block request and one AF swap)" % (where, pro))
    # ---- locals -----------------------------------------------------------------------------------------
    inits, declared = {}, []
    while k < len(stmts) and stmts[k][0] in ("let", "decl"):
        s = stmts[k]
        declared.append(s[1])
        if s[0] == "let":
            inits[s[1]] = s[2]
        k += 1
    if sorted(declared) != sorted(n for n, _ in _FL_VARS):
        # renamed locals: told apart by what they are initialised from / written back to, then renamed back
        role = {}
        for n, e in inits.items():
            if e[0] == "call" and not e[2] and e[1].startswith("emulator.cpu.regs."):
                r = {"get_flags": "f", "get_acc": "acc", "get_ix": "dest", "get_de": "length"}.get(e[1].split(".")[-1])
                if r:
                    role[n] = r
        for d in declared:
            if d not in inits:
                role[d] = "result_flags"
        for s_ in stmts[k:]:
            if s_[0] == "do" and s_[1][1] == "emulator.cpu.regs.set_hl" and len(s_[1][2]) == 1 and \
                    s_[1][2][0][0] == "call" and s_[1][2][0][1] == "u16_from_le_bytes" and \
                    all(a[0] == "var" for a in s_[1][2][0][2]):
                role[s_[1][2][0][2][0][1]], role[s_[1][2][0][2][1][1]] = "current_byte", "parity_acc"
        if sorted(role) != sorted(declared) or sorted(role.values()) != sorted(n for n, _ in _FL_VARS):
            raise Fail("%s: the locals are %s; the extractor cannot tell which is which of %s"
                       % (where, declared, [n for n, _ in _FL_VARS]))
        stmts = _fl_rename(stmts, role)
        inits = {role[n]: _fl_rename(e, role) for n, e in inits.items()}
    if k >= len(stmts) or stmts[k][0] != "loop":
        raise Fail("%s: the locals are not followed by the loop" % where)
    loop = stmts[k][1]
    post = stmts[k + 1:]
    t = ["/- GENERATED by tools/extract.py (FastLoad) from rustzx-core/src/emulator/fastload/tap.rs (`fast_load_tap`) and",
         "rustzx-z80/src/registers.rs (flag masks): the function translated statement by statement (u8 -> BitVec 8,",
         "u16 -> BitVec 16, assignments as shadowing `let`s, `wrapping_add` / `-=` as BitVec arithmetic). Do not edit. -/",
         "set_option linter.unusedVariables false", "namespace ZxVerif.Extracted.FastLoad", ""]
    for nm in ("FLAG_CARRY", "FLAG_ZERO"):
        t.append("def %s : BitVec 8 := 0x%02X" % (nm, flags[nm]))
    t += ["", "/-- the CPU registers the function may read or write -/", "structure Regs where",
          "  (a f a' f' : BitVec 8)", "  (bc de hl ix iy sp pc : BitVec 16)", "",
          "/-- what happens before the locals are set up, in source order: `if !tape.next_block()? { return Ok(()) }`,",
          "`regs.swap_af_alt()` -/", "inductive Pre | nextBlockElseReturn | swapAf", "  deriving DecidableEq, Repr",
          "def prologue : List Pre := [%s]" % ", ".join("." + x for x in pro), "",
          "/-- the local variables of the function -/", "structure Locals where"]
    t += ["  %s : %s" % (n, _FL_TY[ty]) for n, ty in _FL_VARS]
    t += ["", "/-- the `let`s before the loop, from the registers as they stand after the prologue -/",
          "def init (r : Regs) : Locals :="]
    for n, ty in _FL_VARS:
        if n in inits:
            t.append("  let %s : %s := %s" % (n, _FL_TY[ty], _fl_value(inits[n], ty, env, where)))
        elif ty == "opt8":
            t.append("  let %s : %s := none" % (n, _FL_TY[ty]))
        else:
            raise Fail("%s: local `%s` is declared without a value" % (where, n))
    t.append("  { %s }" % ", ".join("%s := %s" % (n, n) for n, _ in _FL_VARS))
    # ---- the loop ----------------------------------------------------------------------------------------
    if len(loop) != 1 or loop[0][0] != "if" or not (isinstance(loop[0][1], tuple) and loop[0][1][0] == "iflet"):
        raise Fail("%s: the loop body is not a single `if let Some(byte) = tape.next_block_byte()? { .. } else { .. }`" % where)
    _, (_, pat, scrut), some_blk, none_blk = loop[0]
    if pat[0] != "call" or pat[1] != "Some" or len(pat[2]) != 1 or pat[2][0][0] != "var" or \
            scrut != ("call", "emulator.controller.tape.next_block_byte", []):
        raise Fail("%s: the loop does not match `Some(byte)` against `tape.next_block_byte()?`" % where)
    bvar = pat[2][0][1]
    lenv = dict(env)
    for n, ty in _FL_VARS:
        if ty != "opt8":
            lenv[n] = (n, ty)
    lenv["emulator.controller.memory.read(1)"] = ("(memRead %s)", ("bv16",), "bv8")
    unpack = ["  let %s : %s := s.%s" % (n, _FL_TY[ty], n) for n, ty in _FL_VARS] + \
             ["  let store : Option (BitVec 16 × BitVec 8) := none"]
    t += ["", "/-- how an iteration ends: the loop goes on (`continue`, end of the body) or is left (`break`) -/",
          "inductive Next | again | leave", "  deriving DecidableEq, Repr",
          "/-- result of one iteration: the locals, the store made through `write_internal` (address, value), how it ends -/",
          "structure Iter where", "  locals : Locals", "  store : Option (BitVec 16 × BitVec 8)", "  next : Next", "",
          "/-- one iteration when `next_block_byte()` delivered `Some(%s)`; `memRead` = `controller.memory.read` -/" % bvar,
          "def iterSome (s : Locals) (%s : BitVec 8) (memRead : BitVec 16 → BitVec 8) : Iter :=" % bvar] + unpack
    t.append(_fl_iter(some_blk, dict(lenv, **{bvar: (bvar, "bv8")}), where, "  ").rstrip("\n"))
    t += ["", "/-- one iteration when `next_block_byte()` delivered `None` -/",
          "def iterNone (s : Locals) : Iter :="] + unpack
    t.append(_fl_iter(none_blk, lenv, where, "  ").rstrip("\n"))
    # ---- after the loop ------------------------------------------------------------------------------------
    if not post or post[-1] != ("tail", ("call", "Ok", [("var", "UNIT")])):
        raise Fail("%s: the function does not end with `Ok(())`" % where)
    t += ["", "/-- the statements after the loop, in source order; `popPc` = `cpu.pop_pc_from_stack(controller)` -/",
          "def finish (s : Locals) (r : Regs) (popPc : Regs → Regs) : Regs :="]
    t += ["  let %s : %s := s.%s" % (n, _FL_TY[ty], n) for n, ty in _FL_VARS]

    def fin(ss, env_, ind):
        if not ss:
            return ind + "r\n"
        s, rest = ss[0], ss[1:]
        if s[0] == "do" and s[1][1].startswith("emulator.cpu.regs.") and s[1][1].split(".")[-1] in _FL_SET and len(s[1][2]) == 1:
            reg = _FL_SET[s[1][1].split(".")[-1]]
            v = _fl_value(s[1][2][0], "bv8" if reg in _FL_REGS8 else "bv16", env_, where)
            return "%slet r : Regs := { r with %s := %s }\n" % (ind, reg, v) + fin(rest, env_, ind)
        if s == ("do", ("call", "emulator.cpu.pop_pc_from_stack", [("var", "emulator.controller")])):
            return "%slet r : Regs := popPc r\n" % ind + fin(rest, env_, ind)
        if s[0] == "set" and s[1] in dict(_FL_VARS) and dict(_FL_VARS)[s[1]] != "opt8":
            ty = dict(_FL_VARS)[s[1]]
            return "%slet %s : %s := %s\n" % (ind, s[1], _FL_TY[ty], _fl_value(s[2], ty, env_, where)) + fin(rest, env_, ind)
        if s[0] == "if" and isinstance(s[1], tuple) and s[1][0] == "iflet":
            pat, scr = s[1][1], s[1][2]
            if pat[0] == "call" and pat[1] == "Some" and len(pat[2]) == 1 and pat[2][0][0] == "var" and scr == ("var", "result_flags"):
                v = pat[2][0][1]
                return "%smatch result_flags with\n%s| some %s =>\n%s%s| none =>\n%s" % (
                    ind, ind, v, fin(s[2] + rest, dict(env_, **{v: (v, "bv8")}), ind + "  "), ind, fin(s[3] + rest, env_, ind + "  "))
        raise Fail("%s: a statement after the loop that the extractor cannot classify (%s)" % (where, s[0] if s[0] != "do" else s[1][1]))
    t.append(fin(post[:-1], lenv, "  ").rstrip("\n"))
    t += ["", "end ZxVerif.Extracted.FastLoad"]
    return "\n".join(t) + "\n"


# ---- TapeMachine ---------------------------------------------------------------------------------------
# rustzx-core/src/zx/tape/tap.rs: `enum TapeState`, the fields of `struct Tap`, `from_asset`, `can_fast_load`,
# `current_bit`, `play`, `stop`, `rewind` and `process_clocks` (the statements before the `'state_machine` loop;
# every arm of its `match self.state`) translated statement by statement as state transformers (C11, C12).
# On top of the expression translator: `?` (error propagation), enum values with payloads, `if let Some(x) =`,
# `break` / fall-through of a loop body, assignments to pattern variables (`pulses_left -= 1`, `mask >>= 1`).
# The calls that act on the reader half of `Tap` (`next_block`, `next_block_byte`, `asset.seek`) are
# parameters of the translation (`Calls`); which fields those two methods touch is extracted as data.
# Not located -> Skip; located but not translatable -> Fail.

TAP_RS = "rustzx-core/src/zx/tape/tap.rs"

_TM_OPS = r"[-+*/%&|^!<>=(){}\[\];,:.]"
assert _TM_OPS in _TOK.pattern
_TM_TOK = re.compile(_TOK.pattern.replace(_TM_OPS, r"[-+*/%&|^!<>=(){}\[\];,:.?]"), re.X)
_TM_TY = dict(_LEANTY, tstate="TapeState", optnat="Option Nat", optbv8="Option (BitVec 8)")
_TM_ORACLES = {"self.next_block": ("next_block", "bool"), "self.next_block_byte": ("next_block_byte", "optbv8")}


def _tm_tokens(text, where):
    out, i = [], 0
    while i < len(text):
        m = _TM_TOK.match(text, i)
        if not m:
            raise Fail("%s: cannot tokenize `%s`" % (where, text[i:i + 30].split("\n")[0]))
        i = m.end()
        if m.lastgroup != "ws":
            out.append((m.lastgroup, m.group(m.lastgroup)))
    return out


class _TP(_P):
    """`_P` plus the postfix forms `e?` and `e.method(args)`"""

    def unary(self):
        k, x = self.peek()
        if k == "op" and x in ("!", "-"):
            self.eat()
            return ("un", x, self.unary())
        e = _P.unary(self)
        while True:
            if self.at("?"):
                self.eat()
                e = ("try", e)
            elif self.at(".") and self.peek(1)[0] == "id" and self.peek(2)[1] == "(":
                self.eat()
                name = self.eat()
                self.eat("(")
                args = []
                while not self.at(")"):
                    args.append(self.expr())
                    if self.at(","):
                        self.eat()
                self.eat(")")
                e = ("mcall", e, name, args)
            else:
                return e


def _tm_value(p, enum):
    """a value: `if` expression, `Enum::Variant { f: e, g }`, or an expression"""
    if p.at("if"):
        return _tm_if(p, enum)
    k, x = p.peek()
    if k == "id" and x.startswith(enum["name"] + "::") and p.peek(1)[1] == "{":
        p.eat(); p.eat("{")
        items = []
        while not p.at("}"):
            f = p.eat()
            if p.at(":"):
                p.eat()
                items.append((f, p.expr()))
            else:
                items.append((f, ("var", f)))
            if p.at(","):
                p.eat()
        p.eat("}")
        return ("enum", x.split("::", 1)[1], items)
    return p.expr()


def _tm_if(p, enum):
    p.eat("if")
    if p.at("let"):
        p.eat()
        pat = p.expr()
        p.eat("=")
        c = ("iflet", pat, p.expr())
    else:
        c = p.expr()
    p.eat("{")
    th = _tm_block(p, enum)
    p.eat("}")
    el = []
    if p.at("else"):
        p.eat()
        if p.at("if"):
            el = [_tm_if(p, enum)]
        else:
            p.eat("{")
            el = _tm_block(p, enum)
            p.eat("}")
    return ("if", c, th, el)


def _tm_block(p, enum):
    """statements up to the closing `}` (not consumed)"""
    out = []
    while p.peek()[0] is not None and not p.at("}"):
        k, x = p.peek()
        if x == "let":
            p.eat()
            if p.at("mut"):
                p.eat()
            if p.peek()[0] != "id":
                raise Fail("%s: `let` with a pattern (`%s`)" % (p.where, p.peek()[1]))
            name = p.eat()
            if p.at(":"):
                p.eat(); p.eat()
            p.eat("=")
            e = _tm_value(p, enum)
            p.eat(";")
            out.append(("let", name, e))
        elif x == "if":
            out.append(_tm_if(p, enum))
            if p.at(";"):
                p.eat()
        elif x == "loop":
            p.eat(); p.eat("{")
            b = _tm_block(p, enum)
            p.eat("}")
            out.append(("loop", b))
        elif x == "match":
            p.eat()
            scrut = p.expr()
            p.eat("{")
            arms = []
            while not p.at("}"):
                if p.peek()[0] != "id":
                    raise Fail("%s: a `match` arm whose pattern starts with `%s`" % (p.where, p.peek()[1]))
                pat, binds = p.eat(), None
                if p.at("{"):
                    p.eat()
                    binds = []
                    while not p.at("}"):
                        if p.at("mut"):
                            p.eat()
                        if p.peek()[0] != "id" or p.peek(1)[1] not in (",", "}"):
                            raise Fail("%s: arm `%s`: a field pattern that is not a plain binding (`%s %s`)"
                                       % (p.where, pat, p.peek()[1], p.peek(1)[1]))
                        binds.append(p.eat())
                        if p.at(","):
                            p.eat()
                    p.eat("}")
                if not p.at("=>"):
                    raise Fail("%s: arm `%s` is followed by `%s` (alternatives and guards are not translated)"
                               % (p.where, pat, p.peek()[1]))
                p.eat("=>")
                if not p.at("{"):
                    raise Fail("%s: the body of arm `%s` is not a block" % (p.where, pat))
                p.eat("{")
                b = _tm_block(p, enum)
                p.eat("}")
                if p.at(","):
                    p.eat()
                arms.append((pat, binds, b))
            p.eat("}")
            out.append(("match", scrut, arms))
        elif x in ("break", "continue"):
            p.eat()
            if p.at(";"):
                p.eat()
            out.append((x,))
        elif x == "return":
            p.eat()
            e = None if p.at(";") else p.expr()
            p.eat(";")
            out.append(("return", e))
        elif x in ("while", "for", "unsafe"):
            raise Fail("%s: `%s` in a body that is translated statement by statement" % (p.where, x))
        elif k == "id" and p.peek(1)[1] in ("=", "+=", "-=", "*=", "^=", "|=", "&=", "<<=", ">>="):
            name = p.eat(); op = p.eat()
            e = _tm_value(p, enum)
            if not p.at("}"):   # an assignment may be the last expression of a block (its value is `()`)
                p.eat(";")
            if op != "=":
                if e[0] in ("if", "enum"):
                    raise Fail("%s: `%s %s` with a compound value" % (p.where, name, op))
                e = ("bin", op[:-1], ("var", name), e)
            out.append(("set", name, e))
        else:
            e = _tm_value(p, enum)
            if p.at(";"):
                p.eat()
                out.append(("do", e))
            elif p.peek()[0] is None or p.at("}"):
                out.append(("tail", e))
            else:
                raise Fail("%s: cannot parse the statement starting with `%s`" % (p.where, x))
    return out


def _tm_show(e):
    """an expression / value back as normalised Rust-like text (for the summary table)"""
    k = e[0]
    if k == "num":
        return str(e[1])
    if k == "var":
        return e[1]
    if k == "call":
        return "%s(%s)" % (e[1], ", ".join(_tm_show(a) for a in e[2]))
    if k == "mcall":
        return "%s.%s(%s)" % (_tm_show(e[1]), e[2], ", ".join(_tm_show(a) for a in e[3]))
    if k == "try":
        return _tm_show(e[1]) + "?"
    if k == "un":
        return e[1] + _tm_show(e[2])
    if k == "cast":
        return "%s as %s" % (_tm_show(e[1]), e[2])
    if k == "bin":
        return "(%s %s %s)" % (_tm_show(e[2]), e[1], _tm_show(e[3]))
    if k == "enum":
        return "TapeState::" + e[1] + ("{%s}" % ", ".join("%s: %s" % (f, _tm_show(x)) for f, x in e[2]) if e[2] else "")
    if k == "iflet":
        return "let %s = %s" % (_tm_show(e[1]), _tm_show(e[2]))
    if k == "if":
        return "if %s {..} else {..}" % _tm_show(e[1])
    return "<%s>" % k


def _tm_desugar(stmts, where):
    """`x = if c { ..; A } else { ..; B };` -> `if c { ..; x = A; } else { ..; x = B; }` (same order of evaluation);
    `let x = if c { A } else { B };` with plain values stays a conditional value"""
    out = []
    for s in stmts:
        k = s[0]
        if k == "set" and s[2][0] == "if":
            _, c, th, el = s[2]
            if not th or not el or th[-1][0] != "tail" or el[-1][0] != "tail":
                raise Fail("%s: `%s = if ..` whose branches do not both end in a value" % (where, s[1]))
            out += _tm_desugar([("if", c, th[:-1] + [("set", s[1], th[-1][1])], el[:-1] + [("set", s[1], el[-1][1])])], where)
        elif k == "if":
            out.append(("if", s[1], _tm_desugar(s[2], where), _tm_desugar(s[3], where)))
        elif k == "loop":
            out.append(("loop", _tm_desugar(s[1], where)))
        elif k == "match":
            out.append(("match", s[1], [(p_, b_, _tm_desugar(blk, where)) for p_, b_, blk in s[2]]))
        else:
            out.append(s)
    return out


class _TMCtx:
    def __init__(self, mode, fields, enum, where, rewind_ok=False):
        self.mode, self.fields, self.enum, self.where, self.rewind_ok = mode, fields, enum, where, rewind_ok
        self.n = 0

    def fresh(self):
        self.n += 1
        return "r%d" % self.n

    def fin(self, what, arg=None):
        tbl = {"plain": {"end": "s", "return": "s"},
               "result": {"return": "(s, none)", "fail": "(s, some (%s))"},
               "arm": {"end": "(s, .again)", "continue": "(s, .again)", "break": "(s, .leave)", "fail": "(s, .fail (%s))"},
               "gate": {"end": ".enter s", "return": ".returned s"}}[self.mode]
        if what not in tbl:
            raise Fail("%s: %s" % (self.where, {
                "end": "a path through the function ends without `Ok(())`",
                "return": "`return` inside the state machine loop",
                "break": "`break` outside the state machine loop", "continue": "`continue` outside the state machine loop",
                "fail": "`?` (error propagation) in a function that does not return a `Result`"}[what]))
        return tbl[what] % arg if arg is not None else tbl[what]


def _tm_oracle(e):
    """`self.next_block()?` / `self.next_block_byte()?` -> the oracle; None otherwise"""
    if e[0] == "try" and e[1][0] == "call" and e[1][1] in _TM_ORACLES and not e[1][2]:
        return _TM_ORACLES[e[1][1]]
    return None


def _tm_effectful(e):
    if isinstance(e, tuple):
        if e and e[0] in ("try", "mcall"):
            return True
        if e and e[0] == "call" and isinstance(e[1], str) and e[1].startswith("self."):
            return True
        return any(_tm_effectful(x) for x in e[1:])
    if isinstance(e, list):
        return any(_tm_effectful(x) for x in e)
    return False


def _tm_coerce(v, tv, ft, where, what):
    if tv == ft:
        return v
    if tv == "lit" and ft in ("nat", "bv8", "bv16"):
        return v if ft == "nat" else "(%s : %s)" % (v, _TM_TY[ft])
    raise Fail("%s: a %s value stored into %s (%s)" % (where, tv, what, ft))


def _tm_rhs(e, ft, env, ctx, what):
    """Lean text of a value of type `ft`"""
    where = ctx.where
    if e[0] == "enum":
        if ft != "tstate":
            raise Fail("%s: a `%s` value stored into %s (%s)" % (where, ctx.enum["name"], what, ft))
        decl = ctx.enum["variants"].get(e[1])
        if decl is None:
            raise Fail("%s: `%s::%s` is not a variant of the enum" % (where, ctx.enum["name"], e[1]))
        given = dict(e[2])
        if sorted(given) != sorted(f for f, _ in decl) or len(given) != len(e[2]):
            raise Fail("%s: `%s::%s` built with fields %s (declared: %s)" % (where, ctx.enum["name"], e[1], [f for f, _ in e[2]], [f for f, _ in decl]))
        args = []
        for f, ty in decl:
            v, tv = _lean(given[f], env, where)
            args.append(_tm_coerce(v, tv, ty, where, "%s::%s.%s" % (ctx.enum["name"], e[1], f)))
        return "(%s.%s%s)" % (ctx.enum["name"], e[1], "".join(" " + a for a in args))
    if ft in ("optnat", "optbv8"):
        inner = "nat" if ft == "optnat" else "bv8"
        if e == ("var", "None"):
            return "none"
        if e[0] == "call" and e[1] == "Some" and len(e[2]) == 1:
            v, tv = _lean(e[2][0], env, where)
            return "(some %s)" % _tm_coerce(v, tv, inner, where, what)
        if e[0] == "var" and env.get(e[1], (None, None))[1] == ft:
            return env[e[1]][0]
        raise Fail("%s: an Option value stored into %s that is neither `Some(..)` nor `None`" % (where, what))
    if e[0] == "if":
        raise Fail("%s: a conditional value stored into %s" % (where, what))
    v, tv = _lean(e, env, where)
    return _tm_coerce(v, tv, ft, where, what)


def _tm_call_oracle(name, rty, var, ctx, ind, body):
    return ("%smatch c.%s s with\n%s| (.error e, s) => %s\n%s| (.ok %s, s) =>\n%s"
            % (ind, name, ind, ctx.fin("fail", ".call e"), ind, var, body))


def _tm_emit(stmts, env, ctx, ind):
    where = ctx.where
    if not stmts:
        return ind + ctx.fin("end") + "\n"
    s, rest = stmts[0], stmts[1:]
    k = s[0]
    if k in ("break", "continue"):
        return ind + ctx.fin(k) + "\n"      # what follows is unreachable
    if k == "return" or k == "tail":
        if s[1] != ("call", "Ok", [("var", "UNIT")]) and not (k == "return" and s[1] is None and ctx.mode == "plain"):
            raise Fail("%s: the function leaves with `%s` (only `Ok(())` is translated)" % (where, _tm_show(s[1]) if s[1] else "return;"))
        if k == "tail" and rest:
            raise Fail("%s: statements after the final expression" % where)
        return ind + ctx.fin("return") + "\n"
    if k == "set":
        if s[1].startswith("self."):
            f = s[1][5:]
            if f not in ctx.fields:
                raise Fail("%s: assignment to `%s`, which is not a translated field" % (where, s[1]))
            v = _tm_rhs(s[2], ctx.fields[f], env, ctx, s[1])
            return "%slet s := { s with %s := %s }\n" % (ind, f, v) + _tm_emit(rest, env, ctx, ind)
        if s[1] not in env or env[s[1]][0] != s[1]:
            raise Fail("%s: assignment to `%s`, which is neither a field of `self` nor a local" % (where, s[1]))
        ty = env[s[1]][1]
        v = _tm_rhs(s[2], ty, env, ctx, s[1])
        return "%slet %s : %s := %s\n" % (ind, s[1], _TM_TY[ty], v) + _tm_emit(rest, env, ctx, ind)
    if k == "let":
        name, val = s[1], s[2]
        # `self.next_block_byte()?.ok_or(Error)?`: the call, then `None` is the named error
        if val[0] == "try" and val[1][0] == "mcall" and val[1][2] == "ok_or" and len(val[1][3]) == 1 and \
                val[1][3][0][0] == "var" and _tm_oracle(val[1][1]) and _tm_oracle(val[1][1])[1] == "optbv8":
            oname, _ = _tm_oracle(val[1][1])
            r = ctx.fresh()
            env2 = dict(env)
            env2[name] = (name, "bv8")
            body = ("%s  match %s with\n%s  | none => %s\n%s  | some %s =>\n%s"
                    % (ind, r, ind, ctx.fin("fail", '.named "%s"' % val[1][3][0][1]), ind, name,
                       _tm_emit(rest, env2, ctx, ind + "    ")))
            return _tm_call_oracle(oname, "optbv8", r, ctx, ind, body)
        if _tm_oracle(val):
            oname, rty = _tm_oracle(val)
            env2 = dict(env)
            env2[name] = (name, rty)
            return _tm_call_oracle(oname, rty, name, ctx, ind, _tm_emit(rest, env2, ctx, ind + "  "))
        if _tm_effectful(val):
            raise Fail("%s: `let %s = %s` — a call the extractor cannot classify" % (where, name, _tm_show(val)))
        if val[0] == "if":
            _, c, th, el = val
            if isinstance(c, tuple) and c[0] == "iflet" or len(th) != 1 or len(el) != 1 or th[0][0] != "tail" or el[0][0] != "tail" \
                    or th[0][1][0] in ("if", "enum") or el[0][1][0] in ("if", "enum"):
                raise Fail("%s: `let %s = if ..` whose branches are not single plain expressions" % (where, name))
            cv, tc = _lean(c, env, where)
            a, ta = _lean(th[0][1], env, where)
            b, tb = _lean(el[0][1], env, where)
            if tc != "bool":
                raise Fail("%s: `if` on a non-Boolean" % where)
            tv = tb if ta == "lit" else ta
            if tb not in ("lit", tv):
                raise Fail("%s: the branches of `let %s = if ..` have types %s and %s" % (where, name, ta, tb))
            v = "(if %s then %s else %s)" % (cv, a, b)
        elif val[0] == "enum":
            v, tv = _tm_rhs(val, "tstate", env, ctx, name), "tstate"
        else:
            v, tv = _lean(val, env, where)
        tv = "nat" if tv == "lit" else tv
        if tv not in _TM_TY:
            raise Fail("%s: `let %s` of type %s" % (where, name, tv))
        env2 = dict(env)
        env2[name] = (name, tv)
        return "%slet %s : %s := %s\n" % (ind, name, _TM_TY[tv], v) + _tm_emit(rest, env2, ctx, ind)
    if k == "if":
        c, th, el = s[1], s[2], s[3]
        local = {x[1] for blk in (th, el) for x in blk if x[0] == "let"}
        leak = local & _vars_of(rest)
        if leak:
            raise Fail("%s: `%s` is declared inside a branch and a variable of that name is used after the `if`" % (where, sorted(leak)[0]))
        if isinstance(c, tuple) and c[0] == "iflet":
            pat, scr = c[1], c[2]
            if pat[0] != "call" or pat[1] != "Some" or len(pat[2]) != 1 or pat[2][0][0] != "var":
                raise Fail("%s: `if let %s = ..` (only `Some(x)` is translated)" % (where, _tm_show(pat)))
            x = pat[2][0][1]
            if _tm_oracle(scr):
                oname, rty = _tm_oracle(scr)
                if rty != "optbv8":
                    raise Fail("%s: `if let Some(..)` on `%s`, which is not an Option" % (where, _tm_show(scr)))
                r = ctx.fresh()
                env2 = dict(env)
                env2[x] = (x, "bv8")
                body = ("%s  match %s with\n%s  | some %s =>\n%s%s  | none =>\n%s"
                        % (ind, r, ind, x, _tm_emit(th + rest, env2, ctx, ind + "    "), ind, _tm_emit(el + rest, env, ctx, ind + "    ")))
                return _tm_call_oracle(oname, rty, r, ctx, ind, body)
            if _tm_effectful(scr):
                raise Fail("%s: `if let Some(%s) = %s` — a call the extractor cannot classify" % (where, x, _tm_show(scr)))
            v, tv = _lean(scr, env, where)
            if tv not in ("optnat", "optbv8"):
                raise Fail("%s: `if let Some(..)` on a %s value" % (where, tv))
            env2 = dict(env)
            env2[x] = (x, "nat" if tv == "optnat" else "bv8")
            return ("%smatch %s with\n%s| some %s =>\n%s%s| none =>\n%s"
                    % (ind, v, ind, x, _tm_emit(th + rest, env2, ctx, ind + "  "), ind, _tm_emit(el + rest, env, ctx, ind + "  ")))
        # a Boolean condition; `self.next_block()?` may stand at its root or under one `!`
        inner, neg = (c[2], True) if c[0] == "un" and c[1] == "!" else (c, False)
        if _tm_oracle(inner):
            oname, rty = _tm_oracle(inner)
            if rty != "bool":
                raise Fail("%s: `if %s` on a call that does not return a bool" % (where, _tm_show(c)))
            r = ctx.fresh()
            cond = "(!%s)" % r if neg else r
            body = "%s  if %s then\n%s%s  else\n%s" % (ind, cond, _tm_emit(th + rest, env, ctx, ind + "    "), ind,
                                                      _tm_emit(el + rest, env, ctx, ind + "    "))
            return _tm_call_oracle(oname, rty, r, ctx, ind, body)
        if _tm_effectful(c):
            raise Fail("%s: `if %s` — a call inside the condition that the extractor cannot classify" % (where, _tm_show(c)))
        cv, tc = _lean(c, env, where)
        if tc != "bool":
            raise Fail("%s: `if` on a non-Boolean" % where)
        return "%sif %s then\n%s%selse\n%s" % (ind, cv, _tm_emit(th + rest, env, ctx, ind + "  "), ind,
                                               _tm_emit(el + rest, env, ctx, ind + "  "))
    if k == "do":
        e = s[1]
        if e == ("try", ("call", "self.rewind", [])) and ctx.rewind_ok:
            return ("%smatch rewind c s with\n%s| (s, some f) => %s\n%s| (s, none) =>\n%s"
                    % (ind, ind, ctx.fin("fail", "f"), ind, _tm_emit(rest, env, ctx, ind + "  ")))
        if e[0] == "try" and e[1][0] == "call" and e[1][1] == "self.asset.seek" and len(e[1][2]) == 1 and \
                e[1][2][0][0] == "call" and e[1][2][0][1] == "SeekFrom::Start" and len(e[1][2][0][2]) == 1:
            v, tv = _lean(e[1][2][0][2][0], env, where)
            if tv not in ("lit", "nat"):
                raise Fail("%s: seek to a %s position" % (where, tv))
            return ("%smatch c.seek_start %s s.asset with\n%s| (.error e, a) =>\n%s  let s := { s with asset := a }\n%s  %s\n"
                    "%s| (.ok _, a) =>\n%s  let s := { s with asset := a }\n%s"
                    % (ind, v, ind, ind, ind, ctx.fin("fail", ".call e"), ind, ind, _tm_emit(rest, env, ctx, ind + "  ")))
        raise Fail("%s: cannot translate the statement `%s;`" % (where, _tm_show(e)))
    raise Fail("%s: statement kind `%s`" % (where, k))


def _tm_prepare(body):
    b = _join_paths(body)
    b = re.sub(r"'\w+\s*:\s*loop\b", "loop", b)
    b = re.sub(r"\b(break|continue)\s+'\w+", r"\1", b)
    b = re.sub(r"\bOk\s*\(\s*\(\s*\)\s*\)", "Ok(UNIT)", b)
    return b


def _tm_parse(src, name, enum):
    params, ret, body, line = _rust_fn(src, TAP_RS, name)
    where = "%s:%d (fn %s)" % (TAP_RS, line, name)
    try:
        p = _TP(_tm_tokens(_tm_prepare(body), where), where)
        stmts = _tm_block(p, enum)
        if p.peek()[0] is not None:
            raise Fail("%s: unbalanced `}`" % where)
        return params, ret, _tm_desugar(stmts, where), where, line
    except Fail:
        raise
    except Exception as e:
        raise Fail("%s: could not be parsed (%r)" % (where, e))


def _tm_touches(src, name):
    """which parts of `self` a reader method may change: fields stored into / borrowed `&mut` / called on, methods of
    `self` called — in source order, each once"""
    _, _, body, line = _rust_fn(src, TAP_RS, name)
    where = "%s:%d (fn %s)" % (TAP_RS, line, name)
    b = _join_paths(body)
    fields, calls = [], []
    for m in re.finditer(r"\bself\b(?:\s*\.\s*(\w+))?", b):
        f = m.group(1)
        if f is None:
            raise Fail("%s: `self` used as a whole (`%s`)" % (where, " ".join(b[max(0, m.start() - 12):m.end() + 12].split())))
        after = b[m.end():].lstrip()
        before = b[:m.start()].rstrip()
        if after.startswith("("):
            if f not in calls:
                calls.append(f)
        elif re.match(r"(=(?!=)|\+=|-=|\*=|\^=|\|=|&=|<<=|>>=)", after) or after.startswith(".") and re.match(r"\.\s*\w+\s*\(", after) \
                or re.search(r"&\s*mut$", before):
            if f not in fields:
                fields.append(f)
    return fields, calls


_TM_HEAD = """/- GENERATED by tools/extract.py (TapeMachine) from rustzx-core/src/zx/tape/tap.rs: the integer constants,
`enum TapeState`, the fields of `struct Tap`, `from_asset`, `can_fast_load`, `current_bit`, `stop`, `play`, `rewind`
and `process_clocks` (what stands before the `'state_machine` loop; every arm of its `match self.state`), translated
statement by statement (usize -> Nat, u8 -> BitVec 8; a store into a field of `self` is a record update, an `if`
repeats what follows it in both branches, `?` ends the path with the error, `break` leaves the loop, the end of an arm
goes round again). `next_block`, `next_block_byte` and `asset.seek` are parameters (`Calls`). Do not edit. -/
set_option linter.unusedVariables false
namespace ZxVerif.Extracted.TapeMachine
variable {α β ε : Type}
"""


def tape_machine(repo):
    try:
        raw = read(repo, TAP_RS)
    except OSError:
        raise Skip("%s not found" % TAP_RS)
    src = blank_comments(raw)
    t = [_TM_HEAD]
    # ---- constants ------------------------------------------------------------------------------------
    cenv, clines = _const_table(src, TAP_RS, [])
    t.append("/-! ### constants -/")
    t += clines
    t.append("")
    # ---- enum TapeState -------------------------------------------------------------------------------
    m = re.search(r"\benum\s+TapeState\s*\{", src)
    if not m:
        raise Skip("enum TapeState not found in %s" % TAP_RS)
    line = src.count("\n", 0, m.start()) + 1
    ewhere = "%s:%d (enum TapeState)" % (TAP_RS, line)
    try:
        ebody = src[m.end():_match(src, m.end() - 1)]
    except ValueError as e:
        raise Fail("%s: %s" % (ewhere, e))
    variants, order, i = {}, [], 0
    toks = _tm_tokens(ebody, ewhere)
    p = _TP(toks, ewhere)
    while p.peek()[0] is not None:
        if p.peek()[0] != "id":
            raise Fail("%s: unexpected `%s`" % (ewhere, p.peek()[1]))
        v = p.eat()
        fs = []
        if p.at("{"):
            p.eat()
            while not p.at("}"):
                f = p.eat(); p.eat(":")
                ty = p.eat()
                if _RTYPES.get(ty) not in ("nat", "bv8", "bv16", "bool"):
                    raise Fail("%s: variant %s: field `%s` of type %s" % (ewhere, v, f, ty))
                fs.append((f, _RTYPES[ty]))
                if p.at(","):
                    p.eat()
            p.eat("}")
        elif p.at("("):
            raise Fail("%s: variant %s has unnamed fields" % (ewhere, v))
        if p.at(","):
            p.eat()
        elif p.peek()[0] is not None:
            raise Fail("%s: unexpected `%s` after variant %s" % (ewhere, p.peek()[1], v))
        variants[v] = fs
        order.append(v)
    enum = {"name": "TapeState", "variants": variants, "order": order}
    t.append("/-- `enum TapeState` (%s:%d) -/" % (TAP_RS, line))
    t.append("inductive TapeState")
    for v in order:
        t.append("  | %s%s" % (v, "".join(" (%s : %s)" % (f, _LEANTY[ty]) for f, ty in variants[v])))
    t.append("  deriving DecidableEq, Repr")
    t.append("")
    # ---- struct Tap -----------------------------------------------------------------------------------
    m = re.search(r"\bstruct\s+Tap\s*(<[^{]*>)?\s*\{", src)
    if not m:
        raise Skip("struct Tap not found in %s" % TAP_RS)
    line = src.count("\n", 0, m.start()) + 1
    swhere = "%s:%d (struct Tap)" % (TAP_RS, line)
    generics = re.findall(r"(?:^|[<,])\s*(\w+)\s*(?::|,|>)", m.group(1) or "")
    sbody = src[m.end():_match(src, m.end() - 1)]
    fields, decl = {}, []
    for part in re.split(r",(?![^\[<]*[\]>])", sbody):
        part = " ".join(part.split())
        if not part:
            continue
        mm = re.match(r"^(?:pub(?:\([^)]*\))?\s+)?(\w+)\s*:\s*(.+)$", part)
        if not mm:
            raise Fail("%s: field declaration `%s`" % (swhere, part))
        f, ty = mm.group(1), mm.group(2).replace(" ", "")
        if ty == "TapeState":
            fields[f] = "tstate"
            decl.append((f, "TapeState"))
        elif ty in _RTYPES and _RTYPES[ty] in ("nat", "bv8", "bool"):
            fields[f] = _RTYPES[ty]
            decl.append((f, _LEANTY[_RTYPES[ty]]))
        elif ty == "Option<usize>":
            fields[f] = "optnat"
            decl.append((f, "Option Nat"))
        elif f == "asset" and ty in generics:
            decl.append((f, "α"))
        elif f == "buffer" and re.fullmatch(r"\[u8;\w+\]", ty):
            decl.append((f, "β"))
        else:
            raise Fail("%s: field `%s` of type %s" % (swhere, f, ty))
    for need in ("state", "prev_state", "curr_bit", "curr_byte", "delay", "asset", "buffer"):
        if need not in dict(decl):
            raise Skip("field %s of struct Tap not found" % need)
    t.append("/-- the fields of `struct Tap` (%s:%d); `asset` (the generic asset) and `buffer` (the byte array) are kept" % (TAP_RS, line))
    t.append("abstract -/")
    t.append("structure St (α β : Type) where")
    for f, ty in decl:
        t.append("  %s : %s" % (f, ty))
    t.append("")
    t.append("/-- an error leaving a translated function: the `?` of a failed call, or `ok_or(<name>)?` on a `None` -/")
    t.append("inductive Fault (ε : Type)\n  | call (e : ε)\n  | named (what : String)")
    t.append("/-- how one round of the `'state_machine` loop ends: the end of the arm is reached (the loop goes round again),")
    t.append("`break`, or an error propagated by `?` -/")
    t.append("inductive Exit (ε : Type)\n  | again\n  | leave\n  | fail (f : Fault ε)")
    t.append("/-- how the statements before the loop end: `return Ok(())`, or control reaches the loop -/")
    t.append("inductive Gate (α β : Type)\n  | returned (s : St α β)\n  | enter (s : St α β)")
    t.append("/-- the calls that are not translated here: `self.next_block()`, `self.next_block_byte()` (they act on the")
    t.append("reader half of the struct; what they may touch: `next_block_touches` … below) and `self.asset.seek(SeekFrom::Start(n))` -/")
    t.append("structure Calls (α β ε : Type) where")
    t.append("  next_block : St α β → Except ε Bool × St α β")
    t.append("  next_block_byte : St α β → Except ε (Option (BitVec 8)) × St α β")
    t.append("  seek_start : Nat → α → Except ε Unit × α")
    t.append("")
    env = dict(cenv)
    for f, ty in fields.items():
        env["self." + f] = ("s." + f, ty)
    for v in order:
        if not variants[v]:
            env["TapeState::" + v] = ("TapeState." + v, "tstate")
    ST = "St α β"
    # ---- from_asset -----------------------------------------------------------------------------------
    try:
        _, _, fbody, fline = _rust_fn(src, TAP_RS, "from_asset")
        fwhere = "%s:%d (fn from_asset)" % (TAP_RS, fline)
        items = dict(_struct_literal(_norm(fbody), fwhere))
        vals = []
        for f, ty in decl:
            if f not in items:
                raise Fail("%s: field `%s` is not initialised in the literal" % (fwhere, f))
            if f == "asset":
                if items[f] != "asset":
                    raise Fail("%s: `asset: %s`" % (fwhere, items[f]))
                vals.append("asset := asset")
            elif f == "buffer":
                mm = re.fullmatch(r"\[(\w+);(\w+)\]", items[f])
                if not mm:
                    raise Fail("%s: `buffer: %s`" % (fwhere, items[f]))
                fill, tf = _tr_expr(mm.group(1), cenv, fwhere)
                n, tn = _tr_expr(mm.group(2), cenv, fwhere)
                vals.append("buffer := mkBuffer %s %s" % (fill, n))
            else:
                ctx0 = _TMCtx("plain", fields, enum, fwhere)
                pp = _TP(_tm_tokens(items[f], fwhere), fwhere)
                e = _tm_value(pp, enum)
                if pp.peek()[0] is not None:
                    raise Fail("%s: `%s: %s`" % (fwhere, f, items[f]))
                vals.append("%s := %s" % (f, _tm_rhs(e, fields[f], env, ctx0, f)))
        t.append("/-- the struct literal of `from_asset` (%s:%d); `mkBuffer fill len` = `[fill; len]` -/" % (TAP_RS, fline))
        t.append("def fromAsset (asset : α) (mkBuffer : Nat → Nat → β) : %s :=\n  { %s }" % (ST, ",\n    ".join(vals)))
        t.append("")
    except Skip:
        pass
    # ---- getters --------------------------------------------------------------------------------------
    t.append(_tr_getter(src, TAP_RS, "can_fast_load", "canFastLoad", env, "Bool", "bool", ST))
    t.append(_tr_getter(src, TAP_RS, "current_bit", "currentBit", env, "Bool", "bool", ST))
    t.append("")

    # ---- stop, play, rewind ---------------------------------------------------------------------------
    def method(name, lean_name, mode, rewind_ok=False):
        params, ret, stmts, where, line = _tm_parse(src, name, enum)
        if not re.match(r"^\s*&\s*mut\s+self\s*$", params):
            raise Fail("%s: parameters `%s` (expected `&mut self`)" % (where, " ".join(params.split())))
        if (mode == "plain") != (ret == ""):
            raise Fail("%s: returns `%s`" % (where, ret))
        if mode == "result" and _squash(ret) != "Result<()>":
            raise Fail("%s: returns `%s`" % (where, ret))
        ctx = _TMCtx(mode, fields, enum, where, rewind_ok)
        text = _tm_emit(stmts, env, ctx, "  ")
        if mode == "plain":
            return "/-- `%s` (%s:%d), statement by statement -/\ndef %s (s : %s) : %s :=\n%s" % (name, TAP_RS, line, lean_name, ST, ST, text)
        return ("/-- `%s` (%s:%d), statement by statement; second component: the error it returns, if any -/\n"
                "def %s (c : Calls α β ε) (s : %s) : %s × Option (Fault ε) :=\n%s" % (name, TAP_RS, line, lean_name, ST, ST, text))
    t.append(method("stop", "stop", "plain"))
    t.append(method("play", "play", "plain"))
    t.append(method("rewind", "rewind", "result"))
    # ---- process_clocks -------------------------------------------------------------------------------
    params, ret, stmts, where, line = _tm_parse(src, "process_clocks", enum)
    penv, sig = _params_env(params, where)
    if sorted(penv) != ["clocks"] or penv["clocks"][1] != "nat":
        raise Fail("%s: parameters `%s` (expected `&mut self, clocks: usize`)" % (where, " ".join(params.split())))
    loops = [i for i, s in enumerate(stmts) if s[0] == "loop"]
    if len(loops) != 1:
        raise Fail("%s: %d `loop` statements at the top level of the function (expected the state machine loop)" % (where, len(loops)))
    k = loops[0]
    pre, lbody, post = stmts[:k], stmts[k][1], stmts[k + 1:]
    if _tm_effectful(pre) and any(x in repr(pre) for x in ("'try'", "'mcall'")):
        raise Fail("%s: a call with `?` before the state machine loop" % where)
    if post != [("tail", ("call", "Ok", [("var", "UNIT")]))]:
        raise Fail("%s: the state machine loop is not followed by `Ok(())` alone" % where)
    if len(lbody) != 1 or lbody[0][0] != "match" or lbody[0][1] != ("var", "self.state"):
        raise Fail("%s: the body of the loop is not a single `match self.state { .. }`" % where)
    genv = dict(env)
    genv.update(penv)
    gctx = _TMCtx("gate", fields, enum, where)
    t.append("/-- `process_clocks` (%s:%d): the statements before the `'state_machine` loop -/" % (TAP_RS, line))
    t.append("def gate (s : %s) (clocks : Nat) : Gate α β :=\n%s" % (ST, _tm_emit(pre, genv, gctx, "  ")))
    arms = lbody[0][2]
    seen, rows, disp = [], [], []
    for pat, binds, blk in arms:
        if not pat.startswith("TapeState::") or pat[11:] not in variants:
            raise Fail("%s: arm pattern `%s` is not a variant of TapeState" % (where, pat))
        v = pat[11:]
        if v in seen:
            raise Fail("%s: two arms for `%s`" % (where, pat))
        seen.append(v)
        if sorted(binds or []) != sorted(f for f, _ in variants[v]):
            raise Fail("%s: arm `%s` binds %s (declared fields: %s)" % (where, pat, binds or [], [f for f, _ in variants[v]]))
        aenv = dict(env)
        aenv.update(penv)
        for f, ty in variants[v]:
            aenv[f] = (f, ty)
        actx = _TMCtx("arm", fields, enum, "%s, arm %s" % (where, v), rewind_ok=True)
        text = _tm_emit(blk, aenv, actx, "  ")
        psig = "".join(" (%s : %s)" % (f, _LEANTY[ty]) for f, ty in variants[v])
        t.append("/-- arm `%s` of the `match self.state` in `process_clocks` -/" % pat)
        t.append("def arm%s (c : Calls α β ε) (s : %s) (clocks : Nat)%s : %s × Exit ε :=\n%s" % (v, ST, psig, ST, text))
        disp.append("  | TapeState.%s%s => arm%s c s clocks%s" % (v, "".join(" " + f for f, _ in variants[v]), v,
                                                              "".join(" " + f for f, _ in variants[v])))
        rows.append(_tm_row(v, binds or [], blk))
    missing = [v for v in order if v not in seen]
    if missing:
        raise Fail("%s: no arm for %s" % (where, ", ".join(missing)))
    t.append("/-- `match self.state { .. }`: one round of the loop -/")
    t.append("def round (c : Calls α β ε) (s : %s) (clocks : Nat) : %s × Exit ε :=\n  match s.state with\n%s" % (ST, ST, "\n".join(disp)))
    t.append("")
    t.append("/-- `'state_machine: loop { match self.state { .. } }`, at most `fuel` rounds (`named \"fuel\"` when they are used up) -/")
    t.append("def machine (c : Calls α β ε) : Nat → %s → Nat → %s × Option (Fault ε)" % (ST, ST))
    t.append("  | 0, s, _ => (s, some (.named \"fuel\"))")
    t.append("  | fuel + 1, s, clocks =>\n    match round c s clocks with\n    | (s, .again) => machine c fuel s clocks\n"
             "    | (s, .leave) => (s, none)\n    | (s, .fail f) => (s, some f)")
    t.append("")
    t.append("/-- `process_clocks`: the statements before the loop, the loop, `Ok(())` -/")
    t.append("def processClocks (c : Calls α β ε) (fuel : Nat) (s : %s) (clocks : Nat) : %s × Option (Fault ε) :=\n"
             "  match gate s clocks with\n  | .returned s => (s, none)\n  | .enter s => machine c fuel s clocks" % (ST, ST))
    t.append("")
    # ---- summary table --------------------------------------------------------------------------------
    t.append("/-- one arm read off syntactically, everything in source order: the variables the pattern binds, the number of")
    t.append("`self.curr_bit = !self.curr_bit` statements, the right-hand sides of `self.delay = ..`, the values stored into")
    t.append("`self.state`, the conditions tested, the calls on `self`, the number of `break`s, whether a path reaches the end")
    t.append("of the arm (the loop goes round again) -/")
    t.append("structure ArmRow where\n  variant : String\n  binds : List String\n  toggles : Nat\n  delays : List String\n"
             "  successors : List String\n  tests : List String\n  calls : List String\n  breaks : Nat\n  fallsThrough : Bool\n"
             "  deriving DecidableEq, Repr")
    t.append("def armTable : List ArmRow := [")
    t.append(",\n".join("  " + r for r in rows))
    t.append("]")
    t.append("")
    # ---- what the reader methods touch ----------------------------------------------------------------
    for name in ("next_block", "next_block_byte"):
        fs, cs = _tm_touches(src, name)
        t.append("/-- `%s`: the fields of `self` it stores into, borrows `&mut` or calls a method on; the methods of `self` it calls -/" % name)
        t.append("def %s_touches : List String := [%s]" % (name, ", ".join('"%s"' % f for f in fs)))
        t.append("def %s_calls : List String := [%s]" % (name, ", ".join('"%s"' % f for f in cs)))
    pulse = []
    for name in ("process_clocks", "play", "stop", "can_fast_load", "current_bit"):
        for f in _tm_touches(src, name)[0] + re.findall(r"\bself\s*\.\s*(\w+)\b(?!\s*\()", _rust_fn(src, TAP_RS, name)[2]):
            if f not in pulse:
                pulse.append(f)
    t.append("/-- the fields of `self` that `process_clocks`, `play`, `stop`, `can_fast_load`, `current_bit` read or store into themselves -/")
    t.append("def pulse_fields : List String := [%s]" % ", ".join('"%s"' % f for f in pulse))
    t += ["", "end ZxVerif.Extracted.TapeMachine"]
    return "\n".join(t) + "\n"


def _tm_row(v, binds, blk):
    acc = {"toggles": 0, "delays": [], "succ": [], "tests": [], "calls": [], "breaks": 0}

    def calls_of(e):
        if isinstance(e, tuple):
            if e and e[0] == "try" and e[1][0] == "call" and e[1][1].startswith("self."):
                acc["calls"].append(e[1][1][5:] + "?")
                return
            if e and e[0] == "call" and isinstance(e[1], str) and e[1].startswith("self."):
                acc["calls"].append(e[1][5:])
            for x in e[1:]:
                calls_of(x)
        elif isinstance(e, list):
            for x in e:
                calls_of(x)

    def walk(ss):
        """True iff a path reaches the end of the statement list"""
        for s in ss:
            k = s[0]
            if k in ("break",):
                acc["breaks"] += 1
                return False
            if k in ("continue", "return", "tail"):
                return k == "continue"
            if k == "set":
                calls_of(s[2])
                if s[1] == "self.curr_bit" and s[2] == ("un", "!", ("var", "self.curr_bit")):
                    acc["toggles"] += 1
                elif s[1] == "self.delay":
                    acc["delays"].append(_tm_show(s[2]))
                elif s[1] == "self.state":
                    acc["succ"].append(_tm_show(s[2]))
            elif k == "let":
                calls_of(s[2])
            elif k == "do":
                calls_of(s[1])
            elif k == "if":
                calls_of(s[1])
                acc["tests"].append(_tm_show(s[1]))
                a = walk(s[2])
                b = walk(s[3])
                if not (a or b):
                    return False
        return True
    falls = walk(blk)
    q = lambda xs: "[%s]" % ", ".join('"%s"' % x.replace('"', "'") for x in xs)
    return ("{ variant := \"%s\", binds := %s, toggles := %d, delays := %s, successors := %s,\n    tests := %s, calls := %s, breaks := %d, fallsThrough := %s }"
            % (v, q(binds), acc["toggles"], q(acc["delays"]), q(acc["succ"]), q(acc["tests"]), q(acc["calls"]), acc["breaks"],
               "true" if falls else "false"))



# >>> input handlers / AY dispatch
# ---------------------------------------------------------------------------------------------------
# InputHandlers / AyDispatch: the event handlers of the input devices and the register dispatch of the
# sound chip, translated statement by statement (C17, C18). A second, self-contained statement translator
# for `&mut self` methods (it shares the tokenizer and the precedence parser with the one above):
#   * fields of `self` are threaded through a Lean structure `s`; `self.f = e` / `self.f op= e` is a record
#     update, `self.arr[i] op= e` a point update of an array held as a function (`set8`),
#     `self.channels[i].f = e` a point update of an array of structures;
#   * `let m = match E { P => &mut self.f, _ => &mut local };` binds an *alias*: every `*m op= e` updates the
#     field when the test holds and the local otherwise, every `*m` reads the one or the other;
#   * `if let Some(d) = &mut self.dev { d.method(..); }` runs the translated method of the sub-device and
#     writes it back; `self.method(..)` / `self.dev.method(..)` call translated methods (a method that can
#     reach `unreachable!()` returns `Option`, `none` = the panic);
#   * `for n in a..b { .. }` is a `List.foldl` over `List.range'` carrying the one local the body assigns;
#   * `match x { 0 | 1 => .., _ => .. }` on an integer is an if / else-if chain in source order;
#   * `as` between u8 / i8 / u16 / i16 / usize keeps or extends the bit pattern (sign extension from i8),
#     `E as u8` of a field-less enum is its discriminant table; `!` on an integer is `~~~`.
# Arithmetic that would panic in Rust (overflow of a checked `+`) is outside the translation, as above.
# Not located -> Skip; located but not translatable -> Fail.
# ---------------------------------------------------------------------------------------------------

KEMPSTON_JOY_RS = "rustzx-core/src/zx/joy/kempston.rs"
KEMPSTON_MOUSE_RS = "rustzx-core/src/zx/mouse/kempston.rs"
SINCLAIR_RS = "rustzx-core/src/zx/joy/sinclair.rs"
KEYS_RS = "rustzx-core/src/zx/keys.rs"
EMULATOR_RS = "rustzx-core/src/emulator/mod.rs"
ZXAY_RS = "rustzx-core/src/zx/sound/ay.rs"
AYM_PRECISE_RS = "aym/src/backends/precise.rs"
AYM_LIB_RS = "aym/src/lib.rs"

_XTY = {"nat": "Nat", "lit": "Nat", "bool": "Bool", "bv8": "BitVec 8", "i8": "BitVec 8", "bv16": "BitVec 16",
        "i16": "BitVec 16", "bv32": "BitVec 32", "arr8": "Nat → BitVec 8"}
_XRUST = {"usize": "nat", "u8": "bv8", "i8": "i8", "u16": "bv16", "i16": "i16", "u32": "bv32", "bool": "bool"}
_XWIDTH = {"bv8": 8, "i8": 8, "bv16": 16, "i16": 16, "bv32": 32}


class _PX(_P):
    """the expression parser with prefix `*` / `&` / `&mut`, postfix `[i]` and `.field`, array literals, macros"""

    def unary(self):
        k, x = self.peek()
        if k == "op" and x == "*":
            self.eat()
            return ("deref", self.unary())
        if k == "op" and x == "&":
            self.eat()
            if self.peek() == ("id", "mut"):
                self.eat()
            return ("ref", self.unary())
        if k == "op" and x == "[":
            self.eat()
            items = []
            while not self.at("]"):
                items.append(self.expr())
                if self.at(","):
                    self.eat()
            self.eat("]")
            return ("array", items)
        if k == "id" and self.peek(1) == ("op", "!") and self.peek(2) == ("op", "("):
            self.eat(); self.eat(); self.eat("(")
            depth = 1
            while depth:
                y = self.eat()
                depth += (y == "(") - (y == ")")
            return ("macro", x)
        e = _P.unary(self)
        while True:
            if self.at("["):
                self.eat()
                i = self.expr()
                self.eat("]")
                e = ("index", e, i)
            elif self.at(".") and self.peek(1)[0] == "id":
                self.eat()
                name = self.eat()
                if self.at("("):
                    raise Fail("%s: method call `.%s(..)` on an indexed value" % (self.where, name))
                for part in name.split("."):
                    e = ("field", e, part)
            else:
                return e


class _XCtx:
    """what the translation knows: structures, enum discriminant tables, methods, the type of `self`"""

    def __init__(self):
        self.leanty = dict(_XTY)     # type -> Lean type text
        self.structs = {}            # struct type -> {field: type}
        self.enum_cast = {}          # (enum type, "bv8" | "i8") -> Lean function
        self.methods = {}            # (receiver type, method) -> (Lean format, [argument types], result type)
        self.mutators = {}           # (receiver type, method) -> (Lean function, [argument types], may panic)
        self.self_ty = None
        self.option = False          # the function being translated returns Option (it may panic)
        self.alias = {}              # alias name -> (test, field, local, type)

    def ty(self, t):
        if isinstance(t, tuple) and t[0] == "opt":
            return "Option " + self.leanty[t[1]]
        if t not in self.leanty:
            raise KeyError(t)
        return self.leanty[t]


def _x_cast(a, ta, to_rust, X, where):
    to = _XRUST.get(to_rust)
    if to is None or to == "bool":
        raise Fail("%s: cast `as %s`" % (where, to_rust))
    if (ta, to) in X.enum_cast:
        return "(%s %s)" % (X.enum_cast[(ta, to)], a), to
    if ta == "bool":
        if to == "nat":
            return "(if %s then 1 else 0)" % a, "nat"
        if to in _XWIDTH:
            return "(if %s then (1 : BitVec %d) else 0)" % (a, _XWIDTH[to]), to
    if ta == "lit":
        return ("(%s : %s)" % (a, _XTY[to]), to) if to != "nat" else (a, "nat")
    if ta == "nat":
        return (a, "nat") if to == "nat" else ("(BitVec.ofNat %d %s)" % (_XWIDTH[to], a), to)
    if ta in _XWIDTH:
        if to == "nat":
            if ta in ("i8", "i16"):
                raise Fail("%s: cast of a signed value to usize" % where)
            return "(%s).toNat" % a, "nat"
        wa, wt = _XWIDTH[ta], _XWIDTH[to]
        if wa == wt:
            return a, to
        if wt < wa:
            return "((%s).setWidth %d)" % (a, wt), to
        return ("((%s).signExtend %d)" if ta in ("i8", "i16") else "((%s).setWidth %d)") % (a, wt), to
    raise Fail("%s: cast `as %s` of a %s value" % (where, to_rust, ta))


def _x_lean(e, env, X, where):
    """AST -> (fully parenthesised Lean text, type)"""
    k = e[0]
    if k == "num":
        return str(e[1]), "lit"
    if k == "var":
        if e[1] in ("true", "false"):
            return e[1], "bool"
        if e[1] in env:
            if isinstance(env[e[1]][1], tuple) and env[e[1]][1][0] == "pending":
                raise Fail("%s: the untyped integer local `%s` is used before its type is known" % (where, e[1]))
            return env[e[1]]
        head, _, rest = e[1].partition(".")
        if rest and head in env:   # a path into a structure
            v, t = env[head]
            for f in rest.split("."):
                if t not in X.structs or f not in X.structs[t]:
                    raise Fail("%s: `%s`: no translated field `%s` in a %s value" % (where, e[1], f, t))
                v, t = "%s.%s" % (v, f), X.structs[t][f]
            return v, t
        raise Fail("%s: unknown identifier `%s`" % (where, e[1]))
    if k == "deref":
        if e[1][0] == "var" and ("*" + e[1][1]) in env:
            return env["*" + e[1][1]]
        raise Fail("%s: `*` on something that is not a translated alias" % where)
    if k == "index":
        if e[1][0] == "index" and e[1][1] == ("var", "ENVELOPE_RESET_TO_MAX") and "ENVELOPE_RESET_TO_MAX[][]" in env:
            i1, t1 = _x_lean(e[1][2], env, X, where)
            i2, t2 = _x_lean(e[2], env, X, where)
            if t1 not in ("nat", "lit") or t2 not in ("nat", "lit"):
                raise Fail("%s: ENVELOPE_RESET_TO_MAX indexed by %s, %s" % (where, t1, t2))
            return "(%s %s %s)" % (env["ENVELOPE_RESET_TO_MAX[][]"][0], i1, i2), "bool"
        a, ta = _x_lean(e[1], env, X, where)
        i, ti = _x_lean(e[2], env, X, where)
        if ti not in ("nat", "lit"):
            raise Fail("%s: an index of type %s" % (where, ti))
        if ta == "arr8":
            return "(%s %s)" % (a, i), "bv8"
        if isinstance(ta, tuple) and ta[0] == "arr":
            return "(%s %s)" % (a, i), ta[1]
        raise Fail("%s: indexing a %s value" % (where, ta))
    if k == "field":
        a, ta = _x_lean(e[1], env, X, where)
        if ta not in X.structs or e[2] not in X.structs[ta]:
            raise Fail("%s: no translated field `%s` in a %s value" % (where, e[2], ta))
        return "%s.%s" % (a, e[2]), X.structs[ta][e[2]]
    if k == "call":
        if e[1] == "u16::from_le_bytes" and len(e[2]) == 1 and e[2][0][0] == "array" and len(e[2][0][1]) == 2:
            lo, tl = _x_lean(e[2][0][1][0], env, X, where)
            hi, th = _x_lean(e[2][0][1][1], env, X, where)
            if tl != "bv8" or th != "bv8":
                raise Fail("%s: from_le_bytes of %s, %s" % (where, tl, th))
            return "(BitVec.ofNat 16 ((%s).toNat + 256 * (%s).toNat))" % (lo, hi), "bv16"
        key = "%s(%d)" % (e[1], len(e[2]))
        recv, _, meth = e[1].rpartition(".")
        if key in env:
            fmt, targs, tret = env[key]
            pre = []
        elif recv:
            r, tr = _x_lean(("var", recv), env, X, where)
            if (tr, meth) not in X.methods:
                raise Fail("%s: unknown method `%s` of a %s value" % (where, meth, tr))
            fmt, targs, tret = X.methods[(tr, meth)]
            pre = [r]
        else:
            raise Fail("%s: unknown call `%s(..)`" % (where, e[1]))
        if len(targs) != len(e[2]):
            raise Fail("%s: `%s` called with %d argument(s)" % (where, e[1], len(e[2])))
        args = []
        for x, want in zip(e[2], targs):
            a, ta = _x_lean(x, env, X, where)
            if ta == "lit" and want in _XTY:
                a, ta = "(%s : %s)" % (a, _XTY[want]), want
            if ta != want:
                raise Fail("%s: argument of `%s` has type %s (expected %s)" % (where, e[1], ta, want))
            args.append(a)
        return fmt % tuple(pre + args), tret
    if k == "un":
        a, ta = _x_lean(e[2], env, X, where)
        if e[1] == "!" and ta == "bool":
            return "(!%s)" % a, "bool"
        if e[1] == "!" and ta in ("bv8", "bv16", "bv32"):
            return "(~~~%s)" % a, ta
        raise Fail("%s: unary `%s` on a %s value" % (where, e[1], ta))
    if k == "cast":
        a, ta = _x_lean(e[1], env, X, where)
        return _x_cast(a, ta, e[2], X, where)
    if k == "bin":
        op = e[1]
        a, ta = _x_lean(e[2], env, X, where)
        b, tb = _x_lean(e[3], env, X, where)
        if op in ("&&", "||"):
            if ta != "bool" or tb != "bool":
                raise Fail("%s: `%s` on non-Boolean operands" % (where, op))
            return "(%s %s %s)" % (a, op, b), "bool"
        if op in ("<<", ">>"):
            if ta not in ("bv8", "bv16", "bv32", "nat", "lit") or tb not in ("bv8", "bv16", "bv32", "nat", "lit"):
                raise Fail("%s: shift of a %s by a %s" % (where, ta, tb))
            if tb in _XWIDTH:
                b = "(%s).toNat" % b
            return "(%s %s %s)" % (a, _LEANOP[op], b), ta
        t = tb if ta == "lit" else ta
        if tb not in ("lit", t):
            raise Fail("%s: operands of `%s` have types %s and %s" % (where, op, ta, tb))
        if t not in _XTY and op not in ("==", "!="):
            raise Fail("%s: `%s` on %s values" % (where, op, t))
        if op in ("==", "!=", "<", ">", "<=", ">="):
            if op in ("==", "!="):
                if t == "lit":
                    a = "(%s : Nat)" % a
                return "(%s %s %s)" % (a, op, b), "bool"
            if t in ("bool", "i8", "i16") or t not in _XTY:
                raise Fail("%s: ordering of %s values" % (where, t))
            if t == "lit":
                a = "(%s : Nat)" % a
            return "(decide (%s %s %s))" % (a, {"<": "<", ">": ">", "<=": "≤", ">=": "≥"}[op], b), "bool"
        if t == "bool":
            if op in ("^", "&", "|"):
                return "(%s %s %s)" % (a, {"^": "^^", "&": "&&", "|": "||"}[op], b), "bool"
            raise Fail("%s: `%s` on Booleans" % (where, op))
        if op in ("/", "%") and t in ("i8", "i16"):
            raise Fail("%s: signed division" % where)
        return "(%s %s %s)" % (a, _LEANOP[op], b), t
    raise Fail("%s: cannot translate a %s here" % (where, k))


# ---- statements ----

def _x_stmt(p):
    k, x = p.peek()
    if x == "__attr__":
        raise Fail("%s: an attribute inside a translated body" % p.where)
    if x == "let":
        p.eat()
        if p.at("["):   # let [l, h] = port.to_le_bytes();
            p.eat()
            names = []
            while not p.at("]"):
                names.append(p.eat())
                if p.at(","):
                    p.eat()
            p.eat("]"); p.eat("=")
            src = p.eat()
            if not src.endswith(".to_le_bytes") or len(names) != 2:
                raise Fail("%s: array pattern on something other than a u16 `.to_le_bytes()`" % p.where)
            p.eat("("); p.eat(")"); p.eat(";")
            return ("lebytes", names, src[:-len(".to_le_bytes")])
        if p.at("mut"):
            p.eat()
        if p.peek()[0] != "id":
            raise Fail("%s: `let` with a pattern (`%s`)" % (p.where, p.peek()[1]))
        name = p.eat()
        ty = None
        if p.at(":"):
            p.eat()
            ty = p.eat()
        p.eat("=")
        if p.at("match"):
            p.eat()
            scrut = p.expr()
            p.eat("{")
            arms = []
            while not p.at("}"):
                pat = p.expr()
                p.eat("=>")
                arms.append((pat, p.expr()))
                if p.at(","):
                    p.eat()
            p.eat("}"); p.eat(";")
            return ("letmatch", name, scrut, arms)
        e = p.expr()
        p.eat(";")
        return ("let", name, e, ty)
    if x == "if":
        s = _x_if(p)
        if p.at(";"):
            p.eat()
        return s
    if x == "return":
        p.eat()
        if not p.at(";"):
            raise Fail("%s: `return <value>`" % p.where)
        p.eat(";")
        return ("return",)
    if x == "for":
        p.eat()
        var = p.eat()
        if p.eat() != "in":
            raise Fail("%s: `for` without `in`" % p.where)
        lo = p.expr(len(_BINPREC))
        p.eat("..")
        hi = p.expr(len(_BINPREC))
        p.eat("{")
        body = _x_block(p)
        p.eat("}")
        return ("for", var, lo, hi, body)
    if x == "match":
        p.eat()
        scrut = p.expr()
        p.eat("{")
        arms = []
        while not p.at("}"):
            pats = []
            while True:
                kk, y = p.peek()
                if kk == "num":
                    p.eat()
                    pats.append(_intlit(y))
                elif y == "_":
                    p.eat()
                    pats.append("_")
                else:
                    raise Fail("%s: a `match` pattern that is neither an integer nor `_` (`%s`)" % (p.where, y))
                if p.at("|"):
                    p.eat()
                    continue
                break
            p.eat("=>")
            if p.at("{"):
                p.eat()
                body = _x_block(p)
                p.eat("}")
            else:
                body = [("expr", p.expr())]
            if p.at(","):
                p.eat()
            arms.append((pats, body))
        p.eat("}")
        if p.at(";"):
            p.eat()
        return ("match", scrut, arms)
    if x in ("while", "loop", "unsafe"):
        raise Fail("%s: `%s` inside a body that is translated statement by statement" % (p.where, x))
    e = p.expr()
    if p.peek()[0] == "op" and p.peek()[1] in ("=", "+=", "-=", "*=", "|=", "&=", "^=", "<<=", ">>="):
        op = p.eat()
        rhs = p.expr()
        if p.at(";"):
            p.eat()
        elif not (p.peek()[0] is None or p.at("}")):
            raise Fail("%s: an assignment that is not followed by `;`" % p.where)
        return ("set", e, op[:-1], rhs)
    if p.at(";"):
        p.eat()
        return ("expr", e)
    if p.peek()[0] is None or p.at("}"):
        return ("tail", e)
    raise Fail("%s: cannot parse the statement starting with `%s`" % (p.where, x))


def _x_block(p):
    out = []
    while p.peek()[0] is not None and not p.at("}"):
        out.append(_x_stmt(p))
    return out


def _x_if(p):
    p.eat("if")
    if p.at("let"):
        p.eat()
        pat = p.expr()
        p.eat("=")
        head = ("iflet", pat, p.expr())
    else:
        head = ("if", p.expr())
    p.eat("{")
    th = _x_block(p)
    p.eat("}")
    el = []
    if p.at("else"):
        p.eat()
        if p.at("if"):
            el = [_x_if(p)]
        else:
            p.eat("{")
            el = _x_block(p)
            p.eat("}")
    return head + (th, el)


def _x_assigned(stmts):
    """local names assigned (not declared) somewhere in the statements"""
    out = set()
    for s in stmts:
        if s[0] == "set" and s[1][0] == "var" and "." not in s[1][1]:
            out.add(s[1][1])
        elif s[0] in ("if", "iflet"):
            out |= _x_assigned(s[-2]) | _x_assigned(s[-1])
        elif s[0] == "for":
            out |= _x_assigned(s[4])
        elif s[0] == "match":
            for _, b in s[2]:
                out |= _x_assigned(b)
    return out


def _x_declared(stmts):
    return {s[1] for s in stmts if s[0] in ("let", "letmatch")} | {n for s in stmts if s[0] == "lebytes" for n in s[1]}


def _x_coerce(v, tv, want, where, what):
    if tv == want:
        return v
    if tv == "lit" and want in _XTY:
        return "(%s : %s)" % (v, _XTY[want]) if want != "nat" else v
    raise Fail("%s: a %s value stored into %s (%s)" % (where, tv, what, want))


def _x_emit(stmts, env, X, where, ind, done):
    """continuation style: what follows an `if` is repeated in both branches; `done(env)` closes a path"""
    if not stmts:
        return ind + done(env) + "\n"
    s, rest = stmts[0], stmts[1:]
    k = s[0]

    def go(env2=env, ind2=ind, rest2=rest):
        return _x_emit(rest2, env2, X, where, ind2, done)
    if k == "return":
        return ind + done(env) + "\n"
    if k == "tail":
        if rest:
            raise Fail("%s: statements after the final expression" % where)
        if s[1][0] == "call" or s[1][0] == "macro":   # a call in tail position (a match arm, the end of a body)
            return _x_emit([("expr", s[1])], env, X, where, ind, done)
        return ind + done(env, s[1]) + "\n"
    if k == "lebytes":
        v, tv = _x_lean(("var", s[2]), env, X, where)
        if tv != "bv16":
            raise Fail("%s: to_le_bytes of a %s value" % (where, tv))
        env2, out = dict(env), ""
        for n, txt in zip(s[1], ("(%s).setWidth 8" % v, "((%s) >>> 8).setWidth 8" % v)):
            if n != "_":
                env2[n] = (n, "bv8")
                out += "%slet %s : BitVec 8 := %s\n" % (ind, n, txt)
        return out + go(env2)
    if k == "let":
        v, tv = _x_lean(s[2], env, X, where)
        if s[3] is not None:
            want = _XRUST.get(s[3])
            if want is None:
                raise Fail("%s: `let %s: %s`" % (where, s[1], s[3]))
            v, tv = _x_coerce(v, tv, want, where, s[1]), want
        env2 = dict(env)
        if tv == "lit":
            # an untyped integer local: its type is fixed by what it is aliased with (see `letmatch`)
            env2[s[1]] = ("%s" % s[1], ("pending", v))
            return go(env2)
        env2[s[1]] = (s[1], tv)
        return "%slet %s : %s := %s\n" % (ind, s[1], X.ty(tv), v) + go(env2)
    if k == "letmatch":
        # let m = match E { P => &mut self.f, _ => &mut local };
        name, scrut, arms = s[1], s[2], s[3]
        if len(arms) != 2 or arms[1][0] != ("var", "_") or arms[0][1][0] != "ref" or arms[1][1][0] != "ref":
            raise Fail("%s: `let %s = match ..` that is not a choice between two `&mut` places" % (where, name))
        sv, st = _x_lean(scrut, env, X, where)
        pv, pt = _x_lean(arms[0][0], env, X, where)
        if st != pt:
            raise Fail("%s: pattern of type %s against a %s value" % (where, pt, st))
        places = []
        for _, r in arms:
            pl = r[1]
            if pl[0] != "var":
                raise Fail("%s: an alias of something that is not a field or a local" % where)
            places.append(pl[1])
        fld, loc = places
        if not fld.startswith("self.") or loc not in env:
            raise Fail("%s: alias `%s` is not `&mut self.<field>` / `&mut <local>`" % (where, name))
        fv, ft = _x_lean(("var", fld), env, X, where)
        lv, lt = env[loc]
        out = ""
        env2 = dict(env)
        if isinstance(lt, tuple) and lt[0] == "pending":
            out += "%slet %s : %s := %s\n" % (ind, loc, X.ty(ft), lt[1])
            lt = ft
            env2[loc] = (loc, ft)
        if lt != ft:
            raise Fail("%s: alias of a %s field and a %s local" % (where, ft, lt))
        test = "%s_is_field" % name
        out += "%slet %s : Bool := (%s == %s)\n" % (ind, test, sv, pv)
        env2["*" + name] = ("(if %s then %s else %s)" % (test, fv, loc), ft)
        X.alias[name] = (test, fld[5:], loc, ft)
        return out + go(env2)
    if k == "set":
        lhs, op, rhs = s[1], s[2], s[3]
        rv, rt = _x_lean(rhs, env, X, where)

        def value(cur, ct):
            if not op:
                return _x_coerce(rv, rt, ct, where, "the left-hand side")
            v, tv = _x_lean(("bin", op, ("var", "__cur__"), rhs), dict(env, __cur__=(cur, ct)), X, where)
            return _x_coerce(v, tv, ct, where, "the left-hand side")
        if lhs[0] == "deref" and lhs[1][0] == "var" and lhs[1][1] in X.alias:
            test, fld, loc, ft = X.alias[lhs[1][1]]
            nf = value("s.%s" % fld, ft)
            nl = value(loc, ft)
            return ("%slet s := if %s then { s with %s := %s } else s\n%slet %s : %s := if %s then %s else %s\n"
                    % (ind, test, fld, nf, ind, loc, X.ty(ft), test, loc, nl)) + go()
        if lhs[0] == "var" and lhs[1].startswith("self.") and lhs[1].count(".") == 1:
            f = lhs[1][5:]
            ft = X.structs[X.self_ty].get(f)
            if ft is None:
                raise Fail("%s: assignment to `%s`, which is not a translated field" % (where, lhs[1]))
            return "%slet s := { s with %s := %s }\n" % (ind, f, value("s.%s" % f, ft)) + go()
        if lhs[0] == "var" and lhs[1] in env and "." not in lhs[1]:
            lv, lt = env[lhs[1]]
            if isinstance(lt, tuple):
                raise Fail("%s: assignment to the untyped local `%s`" % (where, lhs[1]))
            env2 = dict(env)
            return "%slet %s : %s := %s\n" % (ind, lhs[1], X.ty(lt), value(lv, lt)) + go(env2)
        if lhs[0] == "index" and lhs[1][0] == "var" and lhs[1][1].startswith("self."):
            f = lhs[1][1][5:]
            ft = X.structs[X.self_ty].get(f)
            if ft != "arr8":
                raise Fail("%s: indexed assignment to `%s`" % (where, lhs[1][1]))
            i, ti = _x_lean(lhs[2], env, X, where)
            if ti not in ("nat", "lit"):
                raise Fail("%s: an index of type %s" % (where, ti))
            return "%slet s := { s with %s := set8 s.%s %s %s }\n" % (ind, f, f, i, value("(s.%s %s)" % (f, i), "bv8")) + go()
        if lhs[0] == "field" and lhs[1][0] == "index" and lhs[1][1][0] == "var" and lhs[1][1][1].startswith("self."):
            f = lhs[1][1][1][5:]
            ft = X.structs[X.self_ty].get(f)
            if not (isinstance(ft, tuple) and ft[0] == "arr"):
                raise Fail("%s: assignment into `%s[..]`" % (where, lhs[1][1][1]))
            et = ft[1]
            g = lhs[2]
            if g not in X.structs[et]:
                raise Fail("%s: assignment to `%s[..].%s`, which is not a translated field" % (where, lhs[1][1][1], g))
            i, ti = _x_lean(lhs[1][2], env, X, where)
            if ti not in ("nat", "lit"):
                raise Fail("%s: an index of type %s" % (where, ti))
            nv = value("(s.%s %s).%s" % (f, i, g), X.structs[et][g])
            return "%slet s := { s with %s := setAt s.%s %s { (s.%s %s) with %s := %s } }\n" % (ind, f, f, i, f, i, g, nv) + go()
        raise Fail("%s: cannot translate the left-hand side of an assignment" % where)
    if k == "if":
        c, tc = _x_lean(s[1], env, X, where)
        if tc != "bool":
            raise Fail("%s: `if` on a non-Boolean" % where)
        leak = (_x_declared(s[2]) | _x_declared(s[3])) & _vars_of(rest)
        if leak:
            raise Fail("%s: `%s` is declared inside a branch and a variable of that name is used after the `if`"
                       % (where, sorted(leak)[0]))
        return "%sif %s then\n%s%selse\n%s" % (ind, c, go(env, ind + "  ", s[2] + rest), ind, go(env, ind + "  ", s[3] + rest))
    if k == "iflet":
        # if let Some(d) = &mut self.dev { d.method(..); .. }
        pat, src, th, el = s[1], s[2], s[3], s[4]
        if pat[0] != "call" or pat[1] != "Some" or len(pat[2]) != 1 or pat[2][0][0] != "var" or src[0] != "ref" \
                or src[1][0] != "var" or el:
            raise Fail("%s: `if let` that is not `if let Some(d) = &mut <device> { .. }`" % where)
        d = pat[2][0][1]
        dv, dt = _x_lean(src[1], env, X, where)
        if not (isinstance(dt, tuple) and dt[0] == "opt") or not dv.startswith("s.") or dv.count(".") != 1:
            raise Fail("%s: `if let Some(..)` on `%s`, which is not an optional sub-device of the translated state" % (where, dv))
        if d in _vars_of(rest):
            raise Fail("%s: `%s` is used after the `if let`" % (where, d))
        out = "%smatch %s with\n%s| some %s =>\n" % (ind, dv, ind, d)
        env2 = dict(env)
        env2[d] = (d, dt[1])
        inner = th + [("__writeback", dv[2:], d)] + rest
        out += _x_emit(inner, env2, X, where, ind + "  ", done)
        out += "%s| none =>\n" % ind + go(env, ind + "  ")
        return out
    if k == "__writeback":
        return "%slet s := { s with %s := some %s }\n" % (ind, s[1], s[2]) + go()
    if k == "for":
        lo, tl = _x_lean(s[2], env, X, where)
        hi, th = _x_lean(s[3], env, X, where)
        if tl != "lit" or th != "lit":
            raise Fail("%s: a `for` range whose bounds are not integer literals" % where)
        carried = sorted(_x_assigned(s[4]) - _x_declared(s[4]))
        if len(carried) != 1 or carried[0] not in env:
            raise Fail("%s: the `for` body assigns %s (exactly one outer local is supported)" % (where, carried or "nothing"))
        c = carried[0]
        ct = env[c][1]
        for b in s[4]:
            if _x_touches_self(b):
                raise Fail("%s: the `for` body changes `self`" % where)
        env2 = dict(env)
        env2[s[1]] = (s[1], "nat")
        body = _x_emit(s[4], env2, X, where, ind + "    ", lambda e_, t_=None: c)
        rng = "(List.range %s)" % hi if int(lo) == 0 else "(List.range' %s (%s - %s))" % (lo, hi, lo)
        return ("%slet %s : %s := %s.foldl (fun (%s : %s) (%s : Nat) =>\n%s%s  ) %s\n"
                % (ind, c, X.ty(ct), rng, c, X.ty(ct), s[1], body, ind, c)) + go()
    if k == "match":
        v, tv = _x_lean(s[1], env, X, where)
        if tv not in ("bv8", "bv16", "nat"):
            raise Fail("%s: `match` on a %s value" % (where, tv))
        out, cur = "", ind
        seen_default = False
        for n, (pats, body) in enumerate(s[2]):
            if seen_default:
                raise Fail("%s: an arm after `_`" % where)
            if pats == ["_"]:
                seen_default = True
                out += _x_emit(body + rest, env, X, where, cur, done)
                break
            if "_" in pats:
                raise Fail("%s: `_` among alternatives" % where)
            test = " || ".join("%s == %d" % (v, q) for q in pats)
            out += "%sif (%s) then\n" % (cur, test) + _x_emit(body + rest, env, X, where, cur + "  ", done) + "%selse\n" % cur
            cur += "  "
        if not seen_default:
            raise Fail("%s: `match` on an integer without a `_` arm" % where)
        return out
    if k == "expr":
        e = s[1]
        if e[0] == "macro":
            if e[1] in ("unreachable", "panic", "todo", "unimplemented") and X.option:
                return ind + "none\n"
            raise Fail("%s: `%s!` in a translated body" % (where, e[1]))
        if e[0] != "call":
            raise Fail("%s: an expression statement that is not a call" % where)
        recv, _, meth = e[1].rpartition(".")
        if not recv:
            raise Fail("%s: cannot translate the statement `%s(..)`" % (where, e[1]))
        if recv == "self":
            target, tt, store = "s", X.self_ty, None
        else:
            target, tt = _x_lean(("var", recv), env, X, where)
            store = recv
        if (tt, meth) not in X.mutators:
            raise Fail("%s: cannot translate the statement `%s(..)` (no translated method `%s` of %s)" % (where, e[1], meth, tt))
        fn, targs, panics = X.mutators[(tt, meth)]
        if len(targs) != len(e[2]):
            raise Fail("%s: `%s` called with %d argument(s)" % (where, e[1], len(e[2])))
        args = []
        for a_, want in zip(e[2], targs):
            a, ta = _x_lean(a_, env, X, where)
            if ta == "lit" and want in _XTY:
                a, ta = ("(%s : %s)" % (a, _XTY[want]) if want != "nat" else a), want
            if ta != want:
                raise Fail("%s: argument of `%s` has type %s (expected %s)" % (where, e[1], ta, want))
            args.append(a)
        call = " ".join([fn, target] + args)
        if store is None:
            assign = lambda r: "let s := %s" % r
        elif recv.startswith("self.") and recv.count(".") == 1:
            assign = lambda r: "let s := { s with %s := %s }" % (recv[5:], r)
        elif recv in env and "." not in recv:
            assign = lambda r: "let %s := %s" % (recv, r)
        else:
            raise Fail("%s: a mutating call on `%s`" % (where, recv))
        if panics:
            if not X.option:
                raise Fail("%s: `%s` may panic but the caller is translated as total" % (where, e[1]))
            return ("%smatch %s with\n%s| none => none\n%s| some r_ =>\n%s  %s\n" % (ind, call, ind, ind, ind, assign("r_"))
                    + go(env, ind + "  "))
        return "%s%s\n" % (ind, assign(call)) + go()
    raise Fail("%s: statement kind %s" % (where, k))


def _x_touches_self(s):
    if s[0] == "set":
        l = s[1]
        while l[0] in ("index", "field", "deref"):
            l = l[1]
        return l[0] == "var" and l[1].startswith("self")
    if s[0] == "expr":
        return True
    if s[0] in ("if", "iflet"):
        return any(_x_touches_self(x) for x in s[-2] + s[-1])
    if s[0] in ("for",):
        return any(_x_touches_self(x) for x in s[4])
    if s[0] == "match":
        return any(_x_touches_self(x) for _, b in s[2] for x in b)
    return False


def _x_params(params, X, where):
    """(env, signature, [types]) of the parameters after `self`"""
    env, sig, tys = {}, [], []
    for part in params.split(","):
        part = " ".join(part.split())
        if not part or part in ("self", "&self", "&mut self"):
            continue
        m = re.match(r"^(?:mut )?(\w+) ?: ?([\w:]+)$", part)
        if not m:
            raise Fail("%s: parameter `%s`" % (where, part))
        n, ty = m.group(1), m.group(2).split("::")[-1]
        t = _XRUST.get(ty, ty)
        if t not in X.leanty:
            raise Fail("%s: parameter `%s` of type %s" % (where, n, ty))
        env[n] = (n, t)
        sig.append("(%s : %s)" % (n, X.leanty[t]))
        tys.append(t)
    return env, sig, tys


def _x_body(src, rel, name, nth=0):
    params, ret, body, line = _rust_fn(src, rel, name, nth)
    where = "%s:%d (fn %s)" % (rel, line, name)
    if re.search(r"#\s*!?\[", body):
        raise Fail("%s: an attribute inside the body" % where)
    return params, ret, _join_paths(body), where, line


def _x_method(src, rel, name, lean_name, X, self_ty, base_env, option=False, nth=0, doc_extra=""):
    """`fn name(&mut self, ..)` of the structure `self_ty` -> Lean definition text; registers it as a mutator"""
    params, ret, body, where, line = _x_body(src, rel, name, nth)
    if not re.match(r"^\s*&\s*mut\s+self\b", params):
        raise Fail("%s: not a `&mut self` method any more" % where)
    if ret:
        raise Fail("%s: returns `%s`" % (where, ret))
    try:
        X.self_ty, X.option, X.alias = self_ty, option, {}
        env = dict(base_env)
        for f, t in X.structs[self_ty].items():
            env["self." + f] = ("s." + f, t)
        penv, sig, tys = _x_params(params, X, where)
        env.update(penv)
        p = _PX(_tokens(body, where), where)
        stmts = _x_block(p)
        if p.peek()[0] is not None:
            raise Fail("%s: unbalanced `}`" % where)

        def done(env_, tail=None):
            if tail is not None:
                raise Fail("%s: the method ends in a value" % where)
            return "some s" if option else "s"
        text = _x_emit(stmts, env, X, where, "  ", done)
    except Fail:
        raise
    except Exception as e:
        raise Fail("%s: could not be parsed (%r)" % (where, e))
    X.mutators[(self_ty, name)] = (lean_name, tys, option)
    lt = X.leanty[self_ty]
    return "/-- `%s` (%s:%d), statement by statement%s -/\ndef %s %s : %s :=\n%s" % (
        name, rel, line, doc_extra, lean_name, " ".join(["(s : %s)" % lt] + sig), ("Option " + lt) if option else lt, text)


def _x_getter(src, rel, name, lean_name, X, self_ty, base_env, ret_ty, extra_sig=(), nth=0, body_override=None, doc=None):
    """`fn name(&self, ..) -> T` (or a located block) whose body is statements ending in a value"""
    if body_override is None:
        params, ret, body, where, line = _x_body(src, rel, name, nth)
    else:
        params, body, where, line = body_override
    try:
        X.self_ty, X.option, X.alias = self_ty, False, {}
        env = dict(base_env)
        for f, t in X.structs[self_ty].items():
            env["self." + f] = ("s." + f, t)
        penv, sig, tys = _x_params(params, X, where)
        env.update(penv)
        p = _PX(_tokens(body, where), where)
        stmts = _x_block(p)
        if p.peek()[0] is not None:
            raise Fail("%s: unbalanced `}`" % where)
        for st in stmts:
            if _x_touches_self(st):
                raise Fail("%s: a statement that changes `self` in a body translated as a value" % where)

        def done(env_, tail=None):
            if tail is None:
                raise Fail("%s: a path ends without a value" % where)
            v, tv = _x_lean(tail, env_, X, where)
            return _x_coerce(v, tv, ret_ty, where, "the result")
        text = _x_emit(stmts, env, X, where, "  ", done)
    except Fail:
        raise
    except Exception as e:
        raise Fail("%s: could not be parsed (%r)" % (where, e))
    return "/-- %s -/\ndef %s %s : %s :=\n%s" % (
        doc or "`%s` (%s:%d), statement by statement" % (name, rel, line), lean_name,
        " ".join(["(s : %s)" % X.leanty[self_ty]] + list(extra_sig) + sig), X.ty(ret_ty), text)


def _x_struct(src, rel, name, wanted, X, elem=None):
    """the wanted fields of `struct name` with their translated types (Skip if the structure or a field is gone)"""
    m = re.search(r"\bstruct\s+%s\b[^{;]*\{" % name, src)
    if not m:
        raise Skip("struct %s not found in %s" % (name, rel))
    decl = src[m.end():_match(src, m.end() - 1)]
    out = {}
    for f in wanted:
        mm = re.findall(r"(?<![\w.])%s\s*:\s*([^,]+?)\s*(?:,|$)" % f, decl)
        if len(mm) != 1:
            raise Skip("field %s of %s not found" % (f, name))
        ty = _squash(mm[0])
        am = re.fullmatch(r"\[(\w+);(\w+)\]", ty)
        om = re.fullmatch(r"Option<(\w+)>", ty)
        if ty in _XRUST:
            out[f] = _XRUST[ty]
        elif am and am.group(1) == "u8":
            out[f] = "arr8"
        elif am and elem and am.group(1) in elem:
            out[f] = ("arr", elem[am.group(1)])
        elif om and elem and om.group(1) in elem:
            out[f] = ("opt", elem[om.group(1)])
        elif elem and ty in elem:
            out[f] = elem[ty]
        else:
            raise Fail("%s: field %s of %s has type %s" % (rel, f, name, ty))
    return out


def _x_struct_lean(X, ty, doc):
    t = ["/-- %s -/" % doc, "structure %s where" % X.leanty[ty]]
    for f, ft in X.structs[ty].items():
        if isinstance(ft, tuple) and ft[0] == "arr":
            t.append("  %s : Nat → %s" % (f, X.leanty[ft[1]]))
        else:
            t.append("  %s : %s" % (f, X.ty(ft)))
    return t


def _x_enum(src, rel, name, expected, signed=False):
    """`enum name { A = 1, .. }` -> [(variant, value mod 256)]; Skip if the variants are not the expected ones"""
    m = re.search(r"\benum\s+%s\s*\{([^}]*)\}" % name, src)
    if not m:
        raise Skip("enum %s not found in %s" % (name, rel))
    out = []
    for item in m.group(1).split(","):
        item = re.sub(r"#\s*\[[^\]]*\]", "", item).strip()
        if not item:
            continue
        mm = re.fullmatch(r"(\w+)\s*=\s*(-?\s*(?:0[xX][0-9A-Fa-f_]+|\d[\d_]*))", item)
        if not mm:
            raise Fail("%s: variant `%s` of enum %s has no integer discriminant" % (rel, item, name))
        v = int(mm.group(2).replace(" ", "").replace("_", ""), 0)
        if not (-128 <= v <= 255) or (v < 0 and not signed):
            raise Fail("%s: discriminant %d of %s::%s" % (rel, v, name, mm.group(1)))
        out.append((mm.group(1), v % 256))
    if sorted(v for v, _ in out) != sorted(expected):
        raise Skip("enum %s has variants %s" % (name, [v for v, _ in out]))
    return out


def _lower1(s):
    return s[0].lower() + s[1:]


_IH_HEAD = """/- GENERATED by tools/extract.py (InputHandlers) from rustzx-core/src/zx/controller.rs (`send_key`,
`send_sinclair_key`, `send_compound_key`, `send_mouse_*`, the ULA branch of `read_io`, the input fields of
`ZXController::new`), zx/joy/kempston.rs, zx/mouse/kempston.rs, zx/keys.rs (`modifier_key`), zx/joy/sinclair.rs
(argument order) and emulator/mod.rs (the `send_*` entry points), translated statement by statement
(u8 / i8 -> BitVec 8, u16 / i16 -> BitVec 16, u32 -> BitVec 32, usize -> Nat, `[u8; 8]` -> Nat → BitVec 8,
fully parenthesised). The key tables the handlers call are the extracted ones (Keys, Sinclair). Do not edit. -/
import ZxVerif.Extracted.Keys
import ZxVerif.Extracted.Sinclair
set_option linter.unusedVariables false
set_option linter.constructorNameAsVariable false
namespace ZxVerif.Extracted.InputHandlers
open ZxVerif.Input

/-- `arr[i] = v` on a `[u8; 8]` held as a function -/
def set8 (a : Nat → BitVec 8) (i : Nat) (v : BitVec 8) : Nat → BitVec 8 := fun j => if j = i then v else a j
"""


def _ih_forward(src, rel, name, X, self_ty, lean_name, target_fn, target_ty_args):
    """`fn name(&mut self, a, b) { self.controller.name2(a, b); }`: the arguments in call order"""
    params, ret, body, where, line = _x_body(src, rel, name)
    penv, sig, tys = _x_params(params, X, where)
    nb = _norm(body)
    m = re.fullmatch(r"self\.controller\.(\w+)\(([\w, ]*)\);?", nb)
    if not m:
        raise Fail("%s: the body is not a single call `self.controller.<fn>(..)`" % where)
    args = [a.strip() for a in m.group(2).split(",") if a.strip()]
    if m.group(1) != target_fn:
        raise Fail("%s: forwards to `%s` (expected `%s`)" % (where, m.group(1), target_fn))
    for a, want in zip(args, target_ty_args):
        if a not in penv or penv[a][1] != want:
            raise Fail("%s: argument `%s` of the forwarded call" % (where, a))
    if len(args) != len(target_ty_args):
        raise Fail("%s: %d argument(s) forwarded" % (where, len(args)))
    return "/-- `Emulator::%s` (%s:%d): forwards to `ZXController::%s` -/\ndef %s %s : Ctl :=\n  %s\n" % (
        name, rel, line, target_fn, lean_name, " ".join(["(s : Ctl)"] + sig), " ".join([X.mutators[(self_ty, target_fn)][0], "s"] + args))


def input_handlers(repo):
    def src_of(rel):
        try:
            return blank_comments(read(repo, rel))
        except OSError:
            raise Skip("%s not found" % rel)
    ks, js, ms, es = src_of(CONTROLLER), src_of(KEMPSTON_JOY_RS), src_of(KEMPSTON_MOUSE_RS), src_of(EMULATOR_RS)
    keys_src, sinc = src_of(KEYS_RS), src_of(SINCLAIR_RS)
    X = _XCtx()
    for rust, lean in (("ZXKey", "ZXKey"), ("CompoundKey", "CompoundKey"), ("SinclairKey", "SinclairKey"),
                       ("SinclairJoyNum", "JoyNum"), ("KempstonKey", "KempstonKey"), ("KempstonMouseButton", "MouseButton"),
                       ("KempstonMouseWheelDirection", "WheelDir"), ("Joy", "Joy"), ("Mouse", "Mouse"), ("Ctl", "Ctl")):
        X.leanty[rust] = lean
    t = [_IH_HEAD]
    # ---- keys.rs: modifier_key; sinclair.rs: the argument order of sinclair_event_to_zx_key ----
    _, ret, body, line = _rust_fn(keys_src, KEYS_RS, "modifier_key")
    where = "%s:%d (fn modifier_key)" % (KEYS_RS, line)
    nb = _norm(body)
    t.append("/-- `CompoundKey::modifier_key` (%s:%d) -/" % (KEYS_RS, line))
    t.append("def compoundModifier : CompoundKey → ZXKey")
    m = re.fullmatch(r"ZXKey::(\w+)", nb)
    comp = {"ArrowLeft": "arrowLeft", "ArrowRight": "arrowRight", "ArrowUp": "arrowUp", "ArrowDown": "arrowDown",
            "CapsLock": "capsLock", "Delete": "delete", "Break": "break_"}
    if m:
        if m.group(1) not in LEAN_KEY:
            raise Fail("%s: unknown key %s" % (where, m.group(1)))
        t.append("  | _ => .%s" % LEAN_KEY[m.group(1)])
    else:
        m = re.fullmatch(r"match self\{(.*)\}", nb)
        if not m:
            raise Fail("%s: the body is neither `ZXKey::K` nor `match self { .. }`" % where)
        arms, pos, txt = [], 0, m.group(1)
        rx = re.compile(r"((?:CompoundKey::\w+ ?\| ?)*CompoundKey::\w+|_) ?=> ?ZXKey::(\w+),?")
        while pos < len(txt):
            a = rx.match(txt, pos)
            if not a or a.group(2) not in LEAN_KEY:
                raise Fail("%s: cannot classify the arm `%s`" % (where, txt[pos:pos + 40]))
            for c in re.findall(r"CompoundKey::(\w+)", a.group(1)) or ["_"]:
                if c != "_" and c not in comp:
                    raise Fail("%s: unknown compound key %s" % (where, c))
                t.append("  | %s => .%s" % ("." + comp[c] if c != "_" else "_", LEAN_KEY[a.group(2)]))
            pos = a.end()
    params, _, _, line = _rust_fn(sinc, SINCLAIR_RS, "sinclair_event_to_zx_key")
    order = [p.split(":")[1].strip() for p in params.split(",") if p.strip()]
    names = [p.split(":")[0].strip() for p in params.split(",") if p.strip()]
    if sorted(order) != ["SinclairJoyNum", "SinclairKey"]:
        raise Fail("%s:%d: parameters `%s` of sinclair_event_to_zx_key" % (SINCLAIR_RS, line, " ".join(params.split())))
    t.append("")
    t.append("/-- `sinclair_event_to_zx_key(%s)` (%s:%d): the extracted map with the arguments in call order -/" % (", ".join(names), SINCLAIR_RS, line))
    if order[0] == "SinclairKey":
        t.append("def sinclairEventToZxKey (key : SinclairKey) (num : JoyNum) : ZXKey := sinclairMap num key")
    else:
        t.append("def sinclairEventToZxKey (num : JoyNum) (key : SinclairKey) : ZXKey := sinclairMap num key")
    t.append("")
    base = {"sinclair::sinclair_event_to_zx_key(2)": ("(sinclairEventToZxKey %s %s)", tuple(order), "ZXKey"),
            "sinclair_event_to_zx_key(2)": ("(sinclairEventToZxKey %s %s)", tuple(order), "ZXKey")}
    for k in KEYS:
        base["ZXKey::" + k] = ("ZXKey." + LEAN_KEY[k], "ZXKey")
    X.methods[("ZXKey", "row_id")] = ("(keyRow %s)", (), "nat")
    X.methods[("ZXKey", "mask")] = ("(keyMask %s)", (), "bv8")
    X.methods[("CompoundKey", "primary_key")] = ("(compoundPrimary %s)", (), "ZXKey")
    X.methods[("CompoundKey", "modifier_key")] = ("(compoundModifier %s)", (), "ZXKey")
    X.methods[("CompoundKey", "modifier_mask")] = ("(compoundMask %s)", (), "bv32")
    # ---- joy/kempston.rs ----
    kk = _x_enum(js, KEMPSTON_JOY_RS, "KempstonKey", ["Right", "Left", "Down", "Up", "Fire", "Ext1", "Ext2", "Ext3"])
    t.append("/-! ### zx/joy/kempston.rs -/")
    t.append("/-- `KempstonKey as u8` -/")
    t.append("def kempstonBit : KempstonKey → BitVec 8")
    t += ["  | .%s => 0x%02X" % (_lower1(n), v) for n, v in kk]
    X.enum_cast[("KempstonKey", "bv8")] = "kempstonBit"
    X.structs["Joy"] = _x_struct(js, KEMPSTON_JOY_RS, "KempstonJoy", ["state"], X)
    t += _x_struct_lean(X, "Joy", "`struct KempstonJoy`")
    if not re.search(r"#\s*\[\s*derive\s*\([^)]*\bDefault\b[^)]*\)\s*\]\s*pub(?:\s*\(\s*crate\s*\))?\s+struct\s+KempstonJoy\b", js):
        raise Fail("%s: KempstonJoy no longer derives Default" % KEMPSTON_JOY_RS)
    t.append("/-- `KempstonJoy::default()` (derived) -/")
    t.append("def joyDefault : Joy := { state := 0 }")
    t.append(_x_method(js, KEMPSTON_JOY_RS, "key", "Joy.key", X, "Joy", base))
    t.append(_x_getter(js, KEMPSTON_JOY_RS, "read", "Joy.read", X, "Joy", base, "bv8"))
    # ---- mouse/kempston.rs ----
    t.append("/-! ### zx/mouse/kempston.rs -/")
    cenv, clines = _const_table(ms, KEMPSTON_MOUSE_RS, ["WHEEL_MASK", "WHEEL_SHIFT"])
    t += clines
    for n, (v, ty) in cenv.items():
        base[n] = (v, ty)
    mb = _x_enum(ms, KEMPSTON_MOUSE_RS, "KempstonMouseButton", ["Left", "Right", "Middle", "Additional"])
    t.append("/-- `KempstonMouseButton as u8` -/")
    t.append("def mouseButtonBit : MouseButton → BitVec 8")
    t += ["  | .%s => 0x%02X" % (_lower1(n), v) for n, v in mb]
    X.enum_cast[("KempstonMouseButton", "bv8")] = "mouseButtonBit"
    wd = _x_enum(ms, KEMPSTON_MOUSE_RS, "KempstonMouseWheelDirection", ["Up", "Down"], signed=True)
    t.append("/-- `enum KempstonMouseWheelDirection` -/")
    t.append("inductive WheelDir | %s" % " | ".join(n for n, _ in wd))
    t.append("  deriving DecidableEq, Repr")
    t.append("/-- `KempstonMouseWheelDirection as i8` (two's complement) -/")
    t.append("def wheelDirVal : WheelDir → BitVec 8")
    t += ["  | .%s => 0x%02X" % (n, v) for n, v in wd]
    X.enum_cast[("KempstonMouseWheelDirection", "i8")] = "wheelDirVal"
    X.structs["Mouse"] = _x_struct(ms, KEMPSTON_MOUSE_RS, "KempstonMouse", ["buttons_port", "x_pos_port", "y_pos_port"], X)
    t += _x_struct_lean(X, "Mouse", "`struct KempstonMouse`")
    m = re.search(r"impl\s+Default\s+for\s+KempstonMouse\s*\{", ms)
    if not m:
        raise Fail("%s: `impl Default for KempstonMouse` not found" % KEMPSTON_MOUSE_RS)
    blk = ms[m.end():_match(ms, m.end() - 1)]
    lit = re.search(r"\bSelf\s*\{", blk)
    if not lit:
        raise Fail("%s: `Self { .. }` not found in KempstonMouse::default" % KEMPSTON_MOUSE_RS)
    lb = blk[lit.end():_match(blk, lit.end() - 1)]
    vals = []
    for f in X.structs["Mouse"]:
        v, tv = _tr_expr(_body_field(lb, f, KEMPSTON_MOUSE_RS + " (KempstonMouse::default)"), {}, KEMPSTON_MOUSE_RS)
        if tv != "lit":
            raise Fail("%s: KempstonMouse::default: `%s` is not a literal" % (KEMPSTON_MOUSE_RS, f))
        vals.append("%s := %s" % (f, v))
    t.append("/-- `KempstonMouse::default()` -/")
    t.append("def mouseDefault : Mouse := { %s }" % ", ".join(vals))
    t.append(_x_method(ms, KEMPSTON_MOUSE_RS, "send_button", "Mouse.sendButton", X, "Mouse", base))
    t.append(_x_method(ms, KEMPSTON_MOUSE_RS, "send_wheel", "Mouse.sendWheel", X, "Mouse", base))
    t.append(_x_method(ms, KEMPSTON_MOUSE_RS, "send_pos_diff", "Mouse.sendPosDiff", X, "Mouse", base))
    # ---- controller.rs ----
    t.append("/-! ### zx/controller.rs -/")
    X.structs["Ctl"] = _x_struct(ks, CONTROLLER, "ZXController",
                                 ["keyboard", "keyboard_extended", "keyboard_sinclair", "caps_shift_modifier_mask", "kempston", "mouse"],
                                 X, elem={"KempstonJoy": "Joy", "KempstonMouse": "Mouse"})
    t += _x_struct_lean(X, "Ctl", "the input fields of `ZXController`")
    _, field, where = _controller_new(ks)
    _, _, nbody, _ = _rust_fn(ks, CONTROLLER, "new")
    vals = []
    for f, ft in X.structs["Ctl"].items():
        txt = field(f)
        if ft == "arr8":
            m = re.fullmatch(r"\[\s*([0-9A-Fa-fxX_]+)\s*;\s*8\s*\]", txt)
            if not m:
                raise Fail("%s: `%s` initialised with `%s`" % (where, f, txt))
            vals.append("%s := fun _ => 0x%02X" % (f, num(m.group(1))))
        elif isinstance(ft, tuple):
            dev = {"Joy": "KempstonJoy", "Mouse": "KempstonMouse"}[ft[1]]
            m = re.search(r"\blet\s+%s\s*=\s*if\s+settings\s*\.\s*(\w+)\s*\{\s*Some\s*\(\s*%s::default\s*\(\s*\)\s*\)\s*\}\s*else\s*\{\s*None\s*\}\s*;" % (re.escape(txt), dev), nbody)
            if not m or not re.fullmatch(r"\w+", txt):
                raise Fail("%s: `%s` is not `if settings.<flag> { Some(%s::default()) } else { None }`" % (where, f, dev))
            vals.append("%s := if %s then some %sDefault else none" % (f, m.group(1), ft[1].lower()))
        else:
            v, tv = _tr_expr(txt, {}, where)
            if tv != "lit":
                raise Fail("%s: `%s` initialised with `%s`" % (where, f, txt))
            vals.append("%s := %s" % (f, v))
    flags = re.findall(r"if (\w+) then some", " ".join(vals))
    t.append("/-- `ZXController::new`: the input fields -/")
    t.append("def newCtl %s : Ctl :=\n  { %s }" % (" ".join("(%s : Bool)" % f for f in flags), ",\n    ".join(vals)))
    t.append(_x_method(ks, CONTROLLER, "send_key", "sendKey", X, "Ctl", base))
    t.append(_x_method(ks, CONTROLLER, "send_sinclair_key", "sendSinclairKey", X, "Ctl", base))
    t.append(_x_method(ks, CONTROLLER, "send_compound_key", "sendCompoundKey", X, "Ctl", base))
    t.append(_x_method(ks, CONTROLLER, "send_mouse_button", "sendMouseButton", X, "Ctl", base))
    t.append(_x_method(ks, CONTROLLER, "send_mouse_wheel", "sendMouseWheel", X, "Ctl", base))
    t.append(_x_method(ks, CONTROLLER, "send_mouse_pos_diff", "sendMousePosDiff", X, "Ctl", base))
    # ---- the ULA branch of read_io ----
    lo, hi = _fn_span(ks, "read_io")

    def kwhere(pos):
        return "%s:%d" % (CONTROLLER, ks.count("\n", 0, pos) + 1)
    chain_at = None
    depth, k = 0, lo
    while k < hi:
        c = ks[k]
        if c in "([{":
            depth += 1
        elif c in ")]}":
            depth -= 1
        elif depth == 0 and _word_at(ks, k, "if"):
            chain_at = k
            break
        k += 1
    if chain_at is None:
        raise Skip("no if / else-if chain at the top level of read_io")
    branches, els, _ = _parse_chain(ks, chain_at, hi, kwhere)
    ula = [(c, cp, b, bp) for c, cp, b, bp in branches if "self.keyboard[" in _squash(b)]
    if len(ula) != 1:
        raise Fail("%s: %d branch(es) of read_io read `self.keyboard[..]`" % (kwhere(chain_at), len(ula)))
    _, _, ubody, upos = ula[0]
    pre = re.findall(r"\blet\s*\[[^\]]*\]\s*=\s*port\s*\.\s*to_le_bytes\s*\(\s*\)\s*;", ks[lo:chain_at])
    if len(pre) > 1:
        raise Fail("%s: `port.to_le_bytes()` is taken apart twice in read_io" % kwhere(lo))
    where = "%s (the ULA branch of read_io)" % kwhere(upos)
    renv = dict(base)
    renv["self.tape.current_bit(0)"] = ("ear", (), "bool")
    t.append(_x_getter(ks, CONTROLLER, "read_io", "readUla", X, "Ctl", renv, "bv8", extra_sig=["(ear : Bool)"],
                       body_override=("port: u16", (pre[0] if pre else "") + _join_paths(ubody), where, 0),
                       doc="the branch of `read_io` that reads `self.keyboard[..]` (%s), statement by statement, after the "
                           "`let [..] = port.to_le_bytes();` that precedes the chain; `ear` = `self.tape.current_bit()`" % kwhere(upos)))
    # ---- emulator/mod.rs ----
    t.append("/-! ### emulator/mod.rs -/")
    params, ret, body, where, line = _x_body(es, EMULATOR_RS, "send_kempston_key")
    nb = _norm(body)
    m = re.fullmatch(r"if let Some\((\w+)\)=&mut self\.controller\.kempston\{(.*)\}", nb)
    if not m:
        raise Fail("%s: the body is not `if let Some(joy) = &mut self.controller.kempston { .. }`" % where)
    t.append(_x_method(es.replace("self.controller.kempston", "self.kempston"), EMULATOR_RS, "send_kempston_key", "sendKempstonKey",
                       X, "Ctl", base, doc_extra=" (`self.controller.kempston` read as the field of the controller)"))
    X.mutators.pop(("Ctl", "send_kempston_key"), None)
    for rname, lname in (("send_key", "emuSendKey"), ("send_compound_key", "emuSendCompoundKey"),
                         ("send_sinclair_key", "emuSendSinclairKey"), ("send_mouse_button", "emuSendMouseButton"),
                         ("send_mouse_wheel", "emuSendMouseWheel"), ("send_mouse_pos_diff", "emuSendMousePosDiff")):
        t.append(_ih_forward(es, EMULATOR_RS, rname, X, "Ctl", lname, rname, X.mutators[("Ctl", rname)][1]))
    t += ["end ZxVerif.Extracted.InputHandlers"]
    return "\n".join(t) + "\n"


_AY_HEAD = """/- GENERATED by tools/extract.py (AyDispatch) from aym/src/backends/precise.rs (`write_register` and the setters
it calls: `set_tone`, `set_noise`, `set_mixer`, `set_volume`, `set_envelope`, `set_envelope_shape`,
`reset_segment`), aym/src/lib.rs (`AY_REGISTER_COUNT`), rustzx-core/src/zx/sound/ay.rs (`ZXAyChip::select_reg`,
`write`, `read`) and rustzx-core/src/zx/controller.rs (`select_ay_reg`, `write_ay_port`, `read_ay_port`),
translated statement by statement (u8 -> BitVec 8, u16 -> BitVec 16, usize -> Nat, arrays -> functions of the
index, `match` on the register number -> if / else-if chain in source order, `unreachable!()` -> `none`;
fully parenthesised). `ENVELOPE_RESET_TO_MAX` is the extracted table (AyTables). Do not edit. -/
import ZxVerif.Extracted.AyTables
set_option linter.unusedVariables false
namespace ZxVerif.Extracted.AyDispatch

/-- `arr[i] = v` on a `[u8; N]` held as a function -/
def set8 (a : Nat → BitVec 8) (i : Nat) (v : BitVec 8) : Nat → BitVec 8 := fun j => if j = i then v else a j
/-- `arr[i] = v` on an array of structures held as a function -/
def setAt {α : Type} (a : Nat → α) (i : Nat) (v : α) : Nat → α := fun j => if j = i then v else a j
/-- `ENVELOPE_RESET_TO_MAX[shape][segment]` (segment 0 / 1) from the extracted table -/
def resetToMaxAt (shape segment : Nat) : Bool :=
  let p := ZxVerif.Ay.Extracted.resetToMax.getD shape (false, false)
  if segment = 0 then p.1 else p.2
"""


def ay_dispatch(repo):
    def src_of(rel):
        try:
            return blank_comments(read(repo, rel))
        except OSError:
            raise Skip("%s not found" % rel)
    ps, lib, zs, ks = src_of(AYM_PRECISE_RS), src_of(AYM_LIB_RS), src_of(ZXAY_RS), src_of(CONTROLLER)
    X = _XCtx()
    X.leanty.update({"Chan": "Chan", "Gen": "Gen", "Chip": "Chip"})
    t = [_AY_HEAD]
    cenv, clines = _const_table(lib, AYM_LIB_RS, ["AY_REGISTER_COUNT"])
    t.append("/-! ### aym/src/lib.rs, aym/src/backends/precise.rs -/")
    t += [l for l in clines if l.startswith("def AY_REGISTER_COUNT ")]
    base = {"AY_REGISTER_COUNT": cenv["AY_REGISTER_COUNT"], "ENVELOPE_RESET_TO_MAX[][]": ("resetToMaxAt", "fn")}
    X.structs["Chan"] = _x_struct(ps, AYM_PRECISE_RS, "ToneChannel",
                                  ["tone_period", "tone_off_bit", "noise_off_bit", "envelope_enabled", "volume"], X)
    t += _x_struct_lean(X, "Chan", "the fields of `struct ToneChannel` the register writes reach")
    X.structs["Gen"] = _x_struct(ps, AYM_PRECISE_RS, "AymPrecise",
                                 ["channels", "noise_period", "envelope_counter", "envelope_period", "envelope_shape",
                                  "envelope_segment", "envelope", "registers"], X, elem={"ToneChannel": "Chan"})
    t += _x_struct_lean(X, "Gen", "the fields of `struct AymPrecise` the register writes reach (an assignment to any other "
                                  "field inside the translated functions is a translation failure)")
    for rname, lname in (("set_tone", "setTone"), ("set_noise", "setNoise"), ("set_mixer", "setMixer"), ("set_volume", "setVolume"),
                         ("set_envelope", "setEnvelope"), ("reset_segment", "resetSegment"), ("set_envelope_shape", "setEnvelopeShape")):
        t.append(_x_method(ps, AYM_PRECISE_RS, rname, lname, X, "Gen", base))
    t.append(_x_method(ps, AYM_PRECISE_RS, "write_register", "writeRegister", X, "Gen", base, option=True,
                       doc_extra="; `none` = `unreachable!()`"))
    # ---- ZXAyChip ----
    t.append("/-! ### rustzx-core/src/zx/sound/ay.rs -/")
    X.structs["Chip"] = _x_struct(zs, ZXAY_RS, "ZXAyChip", ["ay", "current_reg", "regs"], X, elem={"AymPrecise": "Gen"})
    t += _x_struct_lean(X, "Chip", "`struct ZXAyChip`")
    t.append(_x_method(zs, ZXAY_RS, "select_reg", "Chip.selectReg", X, "Chip", {}))
    t.append(_x_method(zs, ZXAY_RS, "write", "Chip.write", X, "Chip", {}, option=True,
                       doc_extra="; `none` = a panic inside `write_register`"))
    t.append(_x_getter(zs, ZXAY_RS, "read", "Chip.read", X, "Chip", {}, "bv8"))
    # ---- the controller's AY port functions (the variants compiled with the `sound` and `ay` features) ----
    t.append("/-! ### rustzx-core/src/zx/controller.rs -/")
    for rname, lname, meth, nargs in (("select_ay_reg", "ctlSelectAyReg", "select_reg", 1), ("write_ay_port", "ctlWriteAyPort", "write", 1),
                                      ("read_ay_port", "ctlReadAyPort", "read", 0)):
        hit = None
        for nth in range(len(re.findall(r"\bfn\s+%s\s*\(" % rname, ks))):
            params, ret, body, line = _rust_fn(ks, CONTROLLER, rname, nth)
            if "self.mixer.ay" in _squash(_join_paths(body)):
                if hit is not None:
                    raise Fail("%s: two definitions of %s reach `self.mixer.ay`" % (CONTROLLER, rname))
                hit = (params, body, line)
        if hit is None:
            raise Skip("no definition of %s reaches `self.mixer.ay`" % rname)
        params, body, line = hit
        where = "%s:%d (fn %s)" % (CONTROLLER, line, rname)
        m = re.fullmatch(r"self\.mixer\.ay\.(\w+)\((\w*)\);?", _norm(_join_paths(body)))
        if not m:
            raise Fail("%s: the body is not a single call `self.mixer.ay.<fn>(..)`" % where)
        penv, sig, tys = _x_params(params, X, where)
        if m.group(1) != meth:
            raise Fail("%s: calls `ZXAyChip::%s` (expected `%s`)" % (where, m.group(1), meth))
        args = [m.group(2)] if m.group(2) else []
        if len(args) != nargs or any(a not in penv or penv[a][1] != "bv8" for a in args):
            raise Fail("%s: arguments `%s` of the forwarded call" % (where, m.group(2)))
        t.append("/-- `ZXController::%s` (%s:%d): forwards to `ZXAyChip::%s` -/" % (rname, CONTROLLER, line, meth))
        if meth == "read":
            t.append("def %s (c : Chip) : BitVec 8 := Chip.read c" % lname)
        elif meth == "write":
            t.append("def %s %s : Option Chip := Chip.write c %s" % (lname, " ".join(["(c : Chip)"] + sig), " ".join(args)))
        else:
            t.append("def %s %s : Chip := Chip.selectReg c %s" % (lname, " ".join(["(c : Chip)"] + sig), " ".join(args)))
    t += ["", "end ZxVerif.Extracted.AyDispatch"]
    return "\n".join(t) + "\n"
# <<< input handlers / AY dispatch




# ---- HostLoop ------------------------------------------------------------------------------------------
# rustzx-core/src/emulator/mod.rs (`emulate_frames`, `have_sound`, `set_speed`), translated statement by
# statement (C16). The loop is emitted as *data*: four ordered lists of classified statements (before the
# frame loop, head of the frame loop, body of the `'cpu` loop, tail of the frame loop) whose tests carry
# their operands and comparison operators as written, plus a small interpreter over an abstract emulator
# (`World`) and a scripted stopwatch. Not located -> Skip; located but outside the subset -> Fail.

EMULATOR_RS = "rustzx-core/src/emulator/mod.rs"

_HL_CMP = {"<": "lt", "<=": "le", ">": "gt", ">=": "ge", "==": "eq", "!=": "ne"}
_HL_EVENTS = {"EmulationEvents::TAPE_FAST_LOAD_TRIGGER_DETECTED": "fastLoadTrigger",
              "EmulationEvents::PC_BREAKPOINT": "pcBreakpoint"}
_HL_REASONS = {"EmulationStopReason::Completed": "completed", "EmulationStopReason::Timeout": "timeout",
               "EmulationStopReason::Breakpoint": "breakpoint"}


def _hl_prepare(body):
    """labels, `?`, `&mut`, method chains broken over lines: rewritten so that the expression tokenizer reads them"""
    b = re.sub(r"(?<=[\w)])\s*\.\s*(?=[A-Za-z_])", ".", body)
    b = re.sub(r"'(\w+)\s*:\s*loop\b", r"loop LABEL_\1", b)
    b = re.sub(r"\bbreak\s+'(\w+)", r"break LABEL_\1", b)
    b = re.sub(r"&\s*mut\s+", "", b)
    return b.replace("?", " QMARK ")


def _hl_payload(p):
    """argument of `Ok(..)` / `Err(..)`: an expression or a struct literal `Name { field: expr, .. }`"""
    if p.peek()[0] == "id" and p.peek(1)[1] == "{":
        name = p.eat(); p.eat("{")
        items = []
        while not p.at("}"):
            f = p.eat(); p.eat(":")
            items.append((f, p.expr()))
            if p.at(","):
                p.eat()
        p.eat("}")
        return ("struct", name, items)
    return p.expr()


def _hl_block(p):
    """statements of the host-loop functions up to the closing `}` (not consumed)"""
    out = []
    while p.peek()[0] is not None and not p.at("}"):
        k, x = p.peek()
        if x == ";":       # the stray `;` after an `if { .. }` statement
            p.eat()
            continue
        if x == "let":
            p.eat()
            if p.at("mut"):
                p.eat()
            name = p.eat()
            if p.at(":"):
                raise Fail("%s: `let %s: ..` with a type annotation" % (p.where, name))
            p.eat("=")
            e = p.expr()
            p.eat(";")
            out.append(("let", name, e))
            continue
        if x == "if":
            out.append(_hl_if(p))
            continue
        if x == "match":
            p.eat()
            scrut = p.expr()
            p.eat("{")
            arms = []
            while not p.at("}"):
                pat = p.expr()
                if p.at("|") or p.at("if"):
                    raise Fail("%s: a `match` arm with alternatives or a guard" % p.where)
                p.eat("=>")
                if not p.at("{"):
                    raise Fail("%s: a `match` arm whose body is not a block" % p.where)
                p.eat("{")
                blk = _hl_block(p)
                p.eat("}")
                if p.at(","):
                    p.eat()
                arms.append((pat, blk))
            p.eat("}")
            out.append(("match", scrut, arms))
            continue
        if x == "loop":
            p.eat()
            label = None
            if p.peek()[0] == "id" and p.peek()[1].startswith("LABEL_"):
                label = p.eat()[6:]
            p.eat("{")
            blk = _hl_block(p)
            p.eat("}")
            out.append(("loop", label, blk))
            continue
        if x in ("while", "for", "continue"):
            raise Fail("%s: `%s` (only `loop`, `break`, `return` are in the translated subset)" % (p.where, x))
        if x == "break":
            p.eat()
            label = None
            if p.peek()[0] == "id" and p.peek()[1].startswith("LABEL_"):
                label = p.eat()[6:]
            p.eat(";")
            out.append(("break", label))
            continue
        if x == "return":
            p.eat()
            kind = p.eat()
            if kind not in ("Ok", "Err"):
                raise Fail("%s: `return %s ..` (expected `Ok(..)` or `Err(..)`)" % (p.where, kind))
            p.eat("(")
            pay = _hl_payload(p)
            p.eat(")"); p.eat(";")
            out.append(("return", kind, pay))
            continue
        if k == "id" and p.peek(1)[1] in ("=", "+=", "-=", "^=", "|=", "&="):
            name = p.eat(); op = p.eat()
            e = p.expr()
            p.eat(";")
            if op != "=":
                raise Fail("%s: compound assignment `%s %s`" % (p.where, name, op))
            out.append(("set", name, e))
            continue
        e = p.expr()
        tried = False
        if p.peek() == ("id", "QMARK"):
            p.eat()
            tried = True
        if p.at(";"):
            p.eat()
            if e[0] != "call":
                raise Fail("%s: expression statement that is not a call" % p.where)
            out.append(("do", e, tried))
        else:
            if tried:
                raise Fail("%s: `?` in a tail expression" % p.where)
            out.append(("tail", e))
    return out


def _hl_if(p):
    p.eat("if")
    if p.at("let"):
        p.eat()
        pat = p.expr()
        p.eat("=")
        c = ("iflet", pat, p.expr())
    else:
        c = p.expr()
    if p.peek() == ("id", "QMARK"):
        raise Fail("%s: `?` inside an `if` condition" % p.where)
    p.eat("{")
    th = _hl_block(p)
    p.eat("}")
    el = None
    if p.at("else"):
        p.eat()
        if p.at("if"):
            el = [_hl_if(p)]
        else:
            p.eat("{")
            el = _hl_block(p)
            p.eat("}")
    return ("if", c, th, el)


def _hl_parse(src, name):
    params, ret, body, line = _rust_fn(src, EMULATOR_RS, name)
    where = "%s:%d (fn %s)" % (EMULATOR_RS, line, name)
    try:
        p = _P(_tokens(_hl_prepare(body), where), where)
        stmts = _hl_block(p)
        if p.peek()[0] is not None:
            raise Fail("%s: unbalanced `}`" % where)
    except (Skip, Fail):
        raise
    except Exception as e:
        raise Fail("%s: could not be parsed (%r)" % (where, e))
    return params, stmts, where


_HOSTLOOP_HEAD = """/- GENERATED by tools/extract.py (HostLoop) from rustzx-core/src/emulator/mod.rs (`emulate_frames`, `have_sound`,
`set_speed`) and rustzx-core/src/utils/mod.rs (`enum EmulationMode`): the host loop translated statement by statement
into data (ordered lists of classified statements; every test with its operands and its comparison operator as
written), with a small interpreter over an abstract emulator and a scripted stopwatch. Do not edit. -/
set_option linter.unusedVariables false
namespace ZxVerif.Extracted.HostLoop

/-- a comparison operator of the source -/
inductive Cmp | lt | le | gt | ge | eq | ne
  deriving DecidableEq, Repr

def Cmp.eval : Cmp → Nat → Nat → Bool
  | .lt, a, b => decide (a < b)
  | .le, a, b => decide (a ≤ b)
  | .gt, a, b => decide (a > b)
  | .ge, a, b => decide (a ≥ b)
  | .eq, a, b => a == b
  | .ne, a, b => a != b

/-- an operand of a test / the `duration` of an `EmulationInfo`: `self.controller.frames_count()`, the count bound by
the `EmulationMode::FrameCount(_)` pattern of the enclosing arm, `stopwatch.measure()` (a call: it consumes a reading),
the `Duration` parameter of `emulate_frames`, an integer literal -/
inductive Val | framesCount | frames | measure | limit | lit (n : Nat)
  deriving DecidableEq, Repr

/-- `EmulationStopReason` -/
inductive Reason | completed | timeout | breakpoint
  deriving DecidableEq, Repr

/-- the `EmulationEvents` flags the loop tests -/
inductive Event | fastLoadTrigger | pcBreakpoint
  deriving DecidableEq, Repr

/-- what a guarded block does: `self.process_fast_load_event()?`, `return Ok(EmulationInfo { duration, stop_reason })`,
`return Err(e)`, `break 'cpu` -/
inductive Act
  | processFastLoad
  | returnInfo (duration : Val) (reason : Reason)
  | returnErr
  | breakCpu
  deriving DecidableEq, Repr

/-- `if lhs cmp rhs { act }` -/
structure Guarded where
  lhs : Val
  cmp : Cmp
  rhs : Val
  act : Act
  deriving DecidableEq, Repr

/-- a statement of `emulate_frames`, classified:
`let stopwatch = H::EmulationStopwatch::new()`, `self.controller.reset_frame_counter()`,
`self.cpu.emulate(&mut self.controller)`, `let events = self.controller.take_events()`,
`if let Some(e) = self.controller.take_last_emulation_error() { act }`,
`if events.contains(E) { act }` (`underNonEmpty`: written inside `if !events.is_empty() { .. }`),
`if lhs cmp rhs { act }`, `match self.mode { FrameCount(frames) => { tests } Max => { tests } }` -/
inductive Stmt
  | newStopwatch | resetFrameCounter | cpuEmulate | takeEvents
  | ifError (act : Act)
  | ifEvent (underNonEmpty : Bool) (e : Event) (act : Act)
  | ifCmp (g : Guarded)
  | matchMode (frameCount : List Guarded) (max : List Guarded)
  deriving DecidableEq, Repr

/-- `emulate_frames`: the statements before the frame loop; inside the frame loop before the `'cpu` loop; the body
of the `'cpu` loop; inside the frame loop after the `'cpu` loop. Nothing follows the frame loop. -/
structure Program where
  prologue : List Stmt
  frameHead : List Stmt
  cpuBody : List Stmt
  frameTail : List Stmt
  deriving DecidableEq, Repr

/-! ### interpreter -/

/-- `EmulationMode` -/
inductive Mode
%(mode_ctors)s
  deriving DecidableEq, Repr

/-- the local `events` -/
structure Events where
  fastLoadTrigger : Bool
  pcBreakpoint : Bool
  deriving DecidableEq, Repr

def Events.isEmpty (ev : Events) : Bool := !ev.fastLoadTrigger && !ev.pcBreakpoint
def Events.contains (ev : Events) : Event → Bool
  | .fastLoadTrigger => ev.fastLoadTrigger
  | .pcBreakpoint => ev.pcBreakpoint

/-- Everything the loop calls, as functions of an abstract emulator state `S` (CPU + controller + host devices):
`cpu.emulate(&mut controller)`; `take_last_emulation_error()` (was one set / the state with it cleared);
`take_events()`; `process_fast_load_event()` (did it return `Err` / the state after it); `frames_count()`;
`reset_frame_counter()`. -/
structure World (S : Type) where
  emulate : S → S
  takeError : S → Bool × S
  takeEvents : S → Events × S
  fastLoad : S → Bool × S
  framesCount : S → Nat
  resetFrameCounter : S → S

/-- what a call fixes: `self.mode`, `emulation_limit`, the readings a fresh stopwatch will deliver -/
structure Ctx where
  mode : Mode
  limit : Nat
  script : List Nat

/-- interpreter state: the emulator, the local `events`, the unread readings of the stopwatch, calls of
`measure()` and of `cpu.emulate` so far -/
structure St (S : Type) where
  s : S
  events : Events
  sw : List Nat
  measures : Nat
  emulates : Nat

/-- how a call ends: the three `EmulationStopReason`s, `Err(e)`, the interpreter's fuel ran out, a `break 'cpu`
outside the `'cpu` loop (never produced by the extractor) -/
inductive Stop | completed | timeout | breakpoint | error | outOfFuel | malformed
  deriving DecidableEq, Repr

def Reason.toStop : Reason → Stop
  | .completed => .completed
  | .timeout => .timeout
  | .breakpoint => .breakpoint

/-- control after a statement: go on, `break 'cpu`, `return` -/
inductive Flow (S : Type)
  | next (st : St S)
  | brk (st : St S)
  | ret (st : St S) (stop : Stop) (duration : Nat)

/-- `stopwatch.measure()`: the next reading of the script (0 when exhausted) -/
def readStopwatch {S : Type} (st : St S) : Nat × St S :=
  match st.sw with
  | [] => (0, { st with measures := st.measures + 1 })
  | d :: ds => (d, { st with sw := ds, measures := st.measures + 1 })

def Val.eval {S : Type} (w : World S) (limit frames : Nat) : Val → St S → Nat × St S
  | .framesCount, st => (w.framesCount st.s, st)
  | .frames, st => (frames, st)
  | .measure, st => readStopwatch st
  | .limit, st => (limit, st)
  | .lit n, st => (n, st)

def Act.exec {S : Type} (w : World S) (limit frames : Nat) : Act → St S → Flow S
  | .processFastLoad, st =>
    if (w.fastLoad st.s).1 then .ret { st with s := (w.fastLoad st.s).2 } .error 0
    else .next { st with s := (w.fastLoad st.s).2 }
  | .returnInfo d r, st => .ret (d.eval w limit frames st).2 r.toStop (d.eval w limit frames st).1
  | .returnErr, st => .ret st .error 0
  | .breakCpu, st => .brk st

/-- operands are evaluated left to right, then compared -/
def Guarded.exec {S : Type} (w : World S) (limit frames : Nat) (g : Guarded) (st : St S) : Flow S :=
  let a := g.lhs.eval w limit frames st
  let b := g.rhs.eval w limit frames a.2
  if g.cmp.eval a.1 b.1 then g.act.exec w limit frames b.2 else .next b.2

def execGuards {S : Type} (w : World S) (limit frames : Nat) : List Guarded → St S → Flow S
  | [], st => .next st
  | g :: gs, st =>
    match g.exec w limit frames st with
    | .next st' => execGuards w limit frames gs st'
    | f => f

def Stmt.exec {S : Type} (w : World S) (c : Ctx) : Stmt → St S → Flow S
  | .newStopwatch, st => .next { st with sw := c.script }
  | .resetFrameCounter, st => .next { st with s := w.resetFrameCounter st.s }
  | .cpuEmulate, st => .next { st with s := w.emulate st.s, emulates := st.emulates + 1 }
  | .takeEvents, st => .next { st with s := (w.takeEvents st.s).2, events := (w.takeEvents st.s).1 }
  | .ifError a, st =>
    if (w.takeError st.s).1 then a.exec w c.limit 0 { st with s := (w.takeError st.s).2 }
    else .next { st with s := (w.takeError st.s).2 }
  | .ifEvent ne e a, st =>
    if (!ne || !st.events.isEmpty) && st.events.contains e then a.exec w c.limit 0 st else .next st
  | .ifCmp g, st => g.exec w c.limit 0 st
  | .matchMode fc mx, st =>
    match c.mode with
%(mode_arms)s

def execList {S : Type} (w : World S) (c : Ctx) : List Stmt → St S → Flow S
  | [], st => .next st
  | x :: xs, st =>
    match x.exec w c st with
    | .next st' => execList w c xs st'
    | f => f

/-- what a call leaves -/
structure Result (S : Type) where
  st : St S
  stop : Stop
  duration : Nat

/-- the two nested loops; `fuel` bounds the iterations of the `'cpu` loop over the whole call. Leaving the `'cpu`
loop runs the tail of the frame loop and then its head again. -/
def Program.loop {S : Type} (p : Program) (w : World S) (c : Ctx) : Nat → St S → Result S
  | 0, st => ⟨st, .outOfFuel, 0⟩
  | fuel + 1, st =>
    match execList w c p.cpuBody st with
    | .next st1 => Program.loop p w c fuel st1
    | .ret st1 stop d => ⟨st1, stop, d⟩
    | .brk st1 =>
      match execList w c p.frameTail st1 with
      | .ret st2 stop d => ⟨st2, stop, d⟩
      | .brk st2 => ⟨st2, .malformed, 0⟩
      | .next st2 =>
        match execList w c p.frameHead st2 with
        | .next st3 => Program.loop p w c fuel st3
        | .ret st3 stop d => ⟨st3, stop, d⟩
        | .brk st3 => ⟨st3, .malformed, 0⟩

/-- one call of `emulate_frames` from emulator state `s` -/
def Program.run {S : Type} (p : Program) (w : World S) (c : Ctx) (fuel : Nat) (s : S) : Result S :=
  match execList w c p.prologue ⟨s, ⟨false, false⟩, [], 0, 0⟩ with
  | .ret st stop d => ⟨st, stop, d⟩
  | .brk st => ⟨st, .malformed, 0⟩
  | .next st0 =>
    match execList w c p.frameHead st0 with
    | .ret st stop d => ⟨st, stop, d⟩
    | .brk st => ⟨st, .malformed, 0⟩
    | .next st1 => p.loop w c fuel st1

/-! ### the source, as data -/
"""


def _hl_mode_enum(repo):
    """variants of `enum EmulationMode` in source order: [(name, has_count)]"""
    rel = "rustzx-core/src/utils/mod.rs"
    try:
        src = blank_comments(read(repo, rel))
    except OSError:
        raise Skip("%s not found" % rel)
    m = re.search(r"\benum\s+EmulationMode\s*\{([^}]*)\}", src)
    if not m:
        raise Skip("enum EmulationMode not found in %s" % rel)
    out = []
    for part in m.group(1).split(","):
        part = re.sub(r"#\[[^\]]*\]", "", part).strip()
        if not part:
            continue
        mm = re.fullmatch(r"(\w+)(?:\s*\(\s*(\w+)\s*\))?", part)
        if not mm:
            raise Fail("%s: variant `%s` of EmulationMode" % (rel, part))
        out.append((mm.group(1), mm.group(2)))
    if out != [("FrameCount", "usize"), ("Max", None)]:
        raise Fail("%s: enum EmulationMode has the variants %s (the translation knows FrameCount(usize), Max)" % (rel, out))
    return out


def host_loop(repo):
    try:
        src = blank_comments(read(repo, EMULATOR_RS))
    except OSError:
        raise Skip("%s not found" % EMULATOR_RS)
    for fn in ("emulate_frames", "have_sound", "set_speed"):   # all three located before anything is translated
        _rust_fn(src, EMULATOR_RS, fn)
    _hl_mode_enum(repo)
    params, stmts, where = _hl_parse(src, "emulate_frames")
    try:
        prog = _hl_program(params, stmts, where)
        flags = _hl_flags(src)
    except (Skip, Fail):
        raise
    except Exception as e:
        raise Fail("%s: could not be classified (%r)" % (where, e))
    t = [_HOSTLOOP_HEAD % {
        "mode_ctors": "  | frameCount (n : Nat)\n  | max",
        "mode_arms": "    | .frameCount n => execGuards w c.limit n fc st\n    | .max => execGuards w c.limit 0 mx st"}]

    def lst(name, doc, items, ind="  "):
        t.append("/-- %s -/" % doc)
        t.append("def %s : List Stmt := [" % name)
        for n, it in enumerate(items):
            t.append(ind + it + ("," if n + 1 < len(items) else ""))
        t.append("]")
    lst("prologue", "before the frame loop", prog["prologue"])
    lst("frameHead", "in the frame loop, before the `'cpu` loop", prog["frameHead"])
    lst("cpuBody", "the body of the `'cpu` loop", prog["cpuBody"])
    lst("frameTail", "in the frame loop, after the `'cpu` loop", prog["frameTail"])
    t += ["/-- `emulate_frames` -/",
          "def program : Program := { prologue := prologue, frameHead := frameHead, cpuBody := cpuBody, frameTail := frameTail }",
          ""]
    t += flags
    t += ["", "end ZxVerif.Extracted.HostLoop"]
    return "\n".join(t) + "\n"


def _hl_program(params, stmts, where):
    # the `Duration` parameter
    lim = [m.group(1) for part in params.split(",")
           for m in [re.match(r"^\s*(?:mut\s+)?(\w+)\s*:\s*(?:core::time::|std::time::)?Duration\s*$", part)] if m]
    if len(lim) != 1:
        raise Fail("%s: expected exactly one `Duration` parameter, found %s" % (where, lim))
    names = {"limit": lim[0], "sw": None, "events": None}

    def val(e, frames):
        if e[0] == "num":
            return ".lit %d" % e[1]
        if e == ("call", "self.controller.frames_count", []):
            return ".framesCount"
        if names["sw"] and e == ("call", names["sw"] + ".measure", []):
            return ".measure"
        if e == ("var", names["limit"]):
            return ".limit"
        if frames and e == ("var", frames):
            return ".frames"
        raise Fail("%s: operand `%s` is none of frames_count(), the FrameCount count, stopwatch.measure(), the time "
                   "limit, a literal" % (where, _hl_show(e)))

    def act(blk, frames, err_var, cpu_label, in_cpu):
        if len(blk) != 1:
            raise Fail("%s: a guarded block with %d statements (expected one: fast load, return, break)" % (where, len(blk)))
        s = blk[0]
        if s[0] == "do" and s[1] == ("call", "self.process_fast_load_event", []):
            if not s[2]:
                raise Fail("%s: the result of process_fast_load_event() is not propagated with `?`" % where)
            return ".processFastLoad"
        if s[0] == "return" and s[1] == "Err":
            if err_var is None or s[2] != ("var", err_var):
                raise Fail("%s: `return Err(%s)` of something other than the error just taken" % (where, _hl_show(s[2])))
            return ".returnErr"
        if s[0] == "return" and s[1] == "Ok":
            pay = s[2]
            if pay[0] != "struct" or pay[1] != "EmulationInfo" or sorted(f for f, _ in pay[2]) != ["duration", "stop_reason"]:
                raise Fail("%s: `return Ok(..)` of something other than `EmulationInfo { duration, stop_reason }`" % where)
            d = dict(pay[2])
            r = d["stop_reason"]
            if r[0] != "var" or r[1] not in _HL_REASONS:
                raise Fail("%s: stop reason `%s`" % (where, _hl_show(r)))
            return "(.returnInfo %s .%s)" % (val(d["duration"], frames), _HL_REASONS[r[1]])
        if s[0] == "break":
            if not in_cpu or (s[1] is not None and s[1] != cpu_label):
                raise Fail("%s: `break%s` does not leave the innermost (`'cpu`) loop" % (where, " '" + s[1] if s[1] else ""))
            return ".breakCpu"
        raise Fail("%s: a guarded block that is neither the fast load, a return nor a break (%s)" % (where, s[0]))

    def guarded(s, frames, cpu_label, in_cpu):
        if s[0] != "if" or s[3] is not None:
            raise Fail("%s: expected an `if` without `else`, found `%s`%s" % (where, s[0], " with else" if s[0] == "if" else ""))
        c = s[1]
        if c[0] != "bin" or c[1] not in _HL_CMP:
            raise Fail("%s: test `%s` is not a single comparison" % (where, _hl_show(c)))
        return "⟨%s, .%s, %s, %s⟩" % (val(c[2], frames), _HL_CMP[c[1]], val(c[3], frames),
                                       act(s[2], frames, None, cpu_label, in_cpu))

    def classify(blk, cpu_label, in_cpu):
        out = []
        for s in blk:
            if s[0] == "let" and s[2][0] == "call" and not s[2][2] and re.search(r"(^|::)EmulationStopwatch::new$", s[2][1]):
                if names["sw"]:
                    raise Fail("%s: a second stopwatch" % where)
                names["sw"] = s[1]
                out.append(".newStopwatch")
            elif s[0] == "let" and s[2] == ("call", "self.controller.take_events", []):
                names["events"] = s[1]
                out.append(".takeEvents")
            elif s[0] == "do" and not s[2] and s[1] == ("call", "self.controller.reset_frame_counter", []):
                out.append(".resetFrameCounter")
            elif s[0] == "do" and not s[2] and s[1] == ("call", "self.cpu.emulate", [("var", "self.controller")]):
                out.append(".cpuEmulate")
            elif s[0] == "if" and isinstance(s[1], tuple) and s[1][0] == "iflet":
                pat, scr = s[1][1], s[1][2]
                if s[3] is not None or scr != ("call", "self.controller.take_last_emulation_error", []) or \
                        pat[0] != "call" or pat[1] != "Some" or len(pat[2]) != 1 or pat[2][0][0] != "var":
                    raise Fail("%s: an `if let` other than `if let Some(e) = self.controller.take_last_emulation_error() {..}`" % where)
                out.append("(.ifError %s)" % act(s[2], None, pat[2][0][1], cpu_label, in_cpu))
            elif s[0] == "if" and names["events"] and s[1] == ("un", "!", ("call", names["events"] + ".is_empty", [])):
                if s[3] is not None:
                    raise Fail("%s: `if !events.is_empty()` with an `else`" % where)
                for x in s[2]:
                    out.append(event_test(x, True, cpu_label, in_cpu))
            elif s[0] == "if" and names["events"] and s[1][0] == "call" and s[1][1] == names["events"] + ".contains":
                out.append(event_test(s, False, cpu_label, in_cpu))
            elif s[0] == "if":
                out.append("(.ifCmp %s)" % guarded(s, None, cpu_label, in_cpu))
            elif s[0] == "match":
                if s[1] != ("var", "self.mode"):
                    raise Fail("%s: `match` on `%s` (expected self.mode)" % (where, _hl_show(s[1])))
                arms = {}
                for pat, blk2 in s[2]:
                    if pat[0] == "call" and pat[1] == "EmulationMode::FrameCount" and len(pat[2]) == 1 and pat[2][0][0] == "var":
                        key, fr = "frameCount", pat[2][0][1]
                    elif pat == ("var", "EmulationMode::Max"):
                        key, fr = "max", None
                    else:
                        raise Fail("%s: arm `%s` of the mode match" % (where, _hl_show(pat)))
                    if key in arms:
                        raise Fail("%s: two arms for %s" % (where, key))
                    arms[key] = "[%s]" % ", ".join(guarded(x, fr, cpu_label, in_cpu) for x in blk2)
                if sorted(arms) != ["frameCount", "max"]:
                    raise Fail("%s: the mode match has the arms %s" % (where, sorted(arms)))
                out.append("(.matchMode %s %s)" % (arms["frameCount"], arms["max"]))
            else:
                raise Fail("%s: a statement the extractor cannot classify (`%s`%s)" % (
                    where, s[0], " " + _hl_show(s[1]) if s[0] == "do" else (" " + s[1] if s[0] in ("let", "set") else "")))
        return out

    def event_test(s, under, cpu_label, in_cpu):
        ev = names["events"]
        if s[0] != "if" or s[3] is not None or s[1][0] != "call" or s[1][1] != ev + ".contains" or len(s[1][2]) != 1:
            raise Fail("%s: inside `if !%s.is_empty()`: something other than `if %s.contains(..) {..}`" % (where, ev, ev))
        flag = s[1][2][0]
        if flag[0] != "var" or flag[1] not in _HL_EVENTS:
            raise Fail("%s: event `%s` is not one the translation knows (%s)" % (where, _hl_show(flag), ", ".join(sorted(_HL_EVENTS))))
        return "(.ifEvent %s .%s %s)" % ("true" if under else "false", _HL_EVENTS[flag[1]], act(s[2], None, None, cpu_label, in_cpu))

    # shape: statements, then the frame loop as the last statement
    loops = [k for k, s in enumerate(stmts) if s[0] == "loop"]
    if len(loops) != 1 or loops[0] != len(stmts) - 1:
        raise Fail("%s: the function is not `<statements> loop { .. }` (loops at statement %s of %d)" % (where, loops, len(stmts)))
    outer = stmts[-1][2]
    inner = [k for k, s in enumerate(outer) if s[0] == "loop"]
    if len(inner) != 1:
        raise Fail("%s: the frame loop contains %d loops (expected the `'cpu` loop)" % (where, len(inner)))
    k = inner[0]
    cpu_label = outer[k][1]
    if any(x[0] == "loop" for x in outer[k][2]):
        raise Fail("%s: a loop inside the `'cpu` loop" % where)
    return {"prologue": classify(stmts[:-1], cpu_label, False),
            "frameHead": classify(outer[:k], cpu_label, False),
            "cpuBody": classify(outer[k][2], cpu_label, True),
            "frameTail": classify(outer[k + 1:], cpu_label, False)}


def _hl_show(e):
    """an expression tree, readably"""
    if not isinstance(e, tuple):
        return str(e)
    if e[0] == "var":
        return e[1]
    if e[0] == "num":
        return str(e[1])
    if e[0] == "call":
        return "%s(%s)" % (e[1], ", ".join(_hl_show(a) for a in e[2]))
    if e[0] == "bin":
        return "%s %s %s" % (_hl_show(e[2]), e[1], _hl_show(e[3]))
    if e[0] == "un":
        return e[1] + _hl_show(e[2])
    return e[0]


def _hl_flags(src):
    """`set_speed` and `have_sound` as functions of the two fields they touch"""
    t = ["/-- the fields of `Emulator` that `set_speed` / `have_sound` touch -/", "structure HostFlags where",
         "  mode : Mode", "  sound_enabled : Bool", "  deriving DecidableEq, Repr", ""]
    params, stmts, where = _hl_parse(src, "set_speed")
    ps = [m.group(1) for part in params.split(",") for m in [re.match(r"^\s*(\w+)\s*:\s*EmulationMode\s*$", part)] if m]
    if len(ps) != 1:
        raise Fail("%s: expected one EmulationMode parameter" % where)
    if stmts != [("set", "self.mode", ("var", ps[0]))]:
        raise Fail("%s: the body is not the single store `self.mode = %s;`" % (where, ps[0]))
    t += ["/-- `set_speed`: `self.mode = %s;` -/" % ps[0],
          "def setSpeed (e : HostFlags) (%s : Mode) : HostFlags := { e with mode := %s }" % (ps[0], ps[0]), ""]
    params, stmts, where = _hl_parse(src, "have_sound")
    if len(stmts) != 1 or stmts[0][0] != "if" or not (isinstance(stmts[0][1], tuple) and stmts[0][1][0] == "iflet") or stmts[0][3] is None:
        raise Fail("%s: the body is not a single `if let <mode pattern> = self.mode { .. } else { .. }`" % where)
    _, (_, pat, scr), th, el = stmts[0]
    if scr != ("var", "self.mode"):
        raise Fail("%s: the pattern is matched against `%s` (expected self.mode)" % (where, _hl_show(scr)))
    if pat[0] == "call" and pat[1] == "EmulationMode::FrameCount" and len(pat[2]) == 1 and pat[2][0][0] == "num":
        lp = ".frameCount %d" % pat[2][0][1]
    elif pat == ("var", "EmulationMode::Max"):
        lp = ".max"
    else:
        raise Fail("%s: mode pattern `%s`" % (where, _hl_show(pat)))

    def bval(blk):
        if len(blk) == 1 and blk[0][0] == "tail":
            e = blk[0][1]
            if e == ("var", "self.sound_enabled"):
                return "e.sound_enabled"
            if e in (("var", "true"), ("var", "false")):
                return e[1]
            if e == ("un", "!", ("var", "self.sound_enabled")):
                return "(!e.sound_enabled)"
        raise Fail("%s: a branch value other than self.sound_enabled / true / false" % where)
    t += ["/-- the pattern `have_sound` matches `self.mode` against -/", "def haveSoundPattern : Mode := %s" % lp,
          "/-- `have_sound`: `if let <pattern> = self.mode { %s } else { %s }` -/" % (bval(th), bval(el)),
          "def haveSound (e : HostFlags) : Bool := if e.mode = haveSoundPattern then %s else %s" % (bval(th), bval(el))]
    return t




TABLES = [("Machine", machine), ("Contended", contention_fn), ("Keys", keys), ("Sinclair", sinclair),
          ("Z80Tables", z80_tables), ("TapeConsts", tape_consts), ("AyTables", ay_tables), ("Ports", ports),
          ("SnaLayout", sna_layout), ("SzxLayout", szx_layout),
          ("VideoConsts", video_consts), ("MixerConsts", mixer_consts),
          ("Paging", paging), ("FrameClock", frame_clock),
          ("VtxLayout", vtx_layout), ("FastLoad", fast_load),
          ("TapeMachine", tape_machine),
          ("InputHandlers", input_handlers), ("AyDispatch", ay_dispatch), ("HostLoop", host_loop)]


def main():
    repo, out = sys.argv[1], sys.argv[2]
    only = set(sys.argv[3:])
    os.makedirs(out, exist_ok=True)
    status = 0
    for name, fn in TABLES:
        if only and name not in only:
            continue
        path = os.path.join(out, name + ".lean")
        try:
            text = fn(repo)
        except Skip as e:
            print("SKIP %s: %s" % (name, e))
            continue
        except Fail as e:  # located but not translatable: loud, and the stale generated file must not survive
            print("FAIL %s: %s" % (name, e))
            sys.stderr.write("extract.py: FAIL %s: %s\n" % (name, e))
            _emit_failed(path, "%s: %s" % (name, e))
            status = 1
            continue
        except Exception as e:  # unreadable / unexpected source: never an alarm
            print("SKIP %s: extractor error %r" % (name, e))
            continue
        old = open(path).read() if os.path.exists(path) else None
        if old == text:
            print("OK %s" % name)
        else:
            with open(path, "w") as f:
                f.write(text)
            print("CHANGED %s" % name)
    return status


if __name__ == "__main__":
    sys.exit(main())
