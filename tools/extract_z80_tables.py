#!/usr/bin/env python3
"""Re-reads the flag lookup tables of rustzx-z80/src/tables/mod.rs and writes
lean/ZxVerif/Extracted/Z80Tables.lean (committed copy; re-run after a change of the tables:
    python3 tools/extract_z80_tables.py [repo-root]).
The theorems of Props/C01.lean about these tables are then re-checked against what the code says now.
If a table cannot be located nothing is written for it and the committed copy stays (the behavioural
correspondence still covers the tables)."""
import os, re, sys
ROOT = os.path.dirname(os.path.dirname(os.path.abspath(__file__)))
repo = sys.argv[1] if len(sys.argv) > 1 else os.environ.get("ZX_REPO", "/repo")
src = open(os.path.join(repo, "rustzx-z80/src/tables/mod.rs")).read()
names = [("HALF_CARRY_ADD_TABLE", 8), ("HALF_CARRY_SUB_TABLE", 8), ("OVERFLOW_ADD_TABLE", 8),
         ("OVERFLOW_SUB_TABLE", 8), ("PARITY_TABLE", 256), ("F3F5_TABLE", 256), ("SZF3F5_TABLE", 256),
         ("SZPF3F5_TABLE", 256)]
lean = {"HALF_CARRY_ADD_TABLE": "halfCarryAdd", "HALF_CARRY_SUB_TABLE": "halfCarrySub",
        "OVERFLOW_ADD_TABLE": "overflowAdd", "OVERFLOW_SUB_TABLE": "overflowSub", "PARITY_TABLE": "parity",
        "F3F5_TABLE": "f3f5", "SZF3F5_TABLE": "szf3f5", "SZPF3F5_TABLE": "szpf3f5"}
out = ["/-", "Flag lookup tables of rustzx-z80/src/tables/mod.rs, extracted by tools/extract_z80_tables.py.",
       "Do not edit by hand.", "-/", "namespace ZxVerif.Z80.Extracted", ""]
skipped = []
for name, n in names:
    m = re.search(r"pub const %s: \[u8; %d\] = \[(.*?)\];" % (name, n), src, flags=re.S)
    if not m:
        skipped.append(name)
        continue
    vals = [int(x, 16) for x in re.findall(r"0x([0-9A-Fa-f]+)", m.group(1))]
    if len(vals) != n:
        skipped.append(name)
        continue
    out.append("def %s : List (BitVec 8) := [" % lean[name])
    for i in range(0, n, 16):
        out.append("  " + ", ".join("0x%02X" % v for v in vals[i:i + 16]) + ("," if i + 16 < n else ""))
    out.append("]")
    out.append("")
out.append("end ZxVerif.Z80.Extracted")
if skipped:
    print("extractor skipped:", skipped, "- committed copy kept")
    sys.exit(0)
open(os.path.join(ROOT, "lean/ZxVerif/Extracted/Z80Tables.lean"), "w").write("\n".join(out) + "\n")
print("wrote lean/ZxVerif/Extracted/Z80Tables.lean")
