#!/bin/sh
# resolves the predictable merge conflicts of an agent branch: MANIFEST.json is regenerated,
# lean/ZxVerif.lean is the sorted union of import lines, known_findings.json is the union of entries
cd "$(dirname "$0")/.."
if git ls-files -u | grep -q "lean/ZxVerif.lean"; then
  (git show :2:lean/ZxVerif.lean; git show :3:lean/ZxVerif.lean) | grep '^import' | sort -u > lean/ZxVerif.lean
  git add lean/ZxVerif.lean
fi
if git ls-files -u | grep -q "known_findings.json"; then
  git show :2:known_findings.json > /tmp/kf_ours.json; git show :3:known_findings.json > /tmp/kf_theirs.json
  python3 - <<'PY'
import json
a=json.load(open('/tmp/kf_ours.json')); b=json.load(open('/tmp/kf_theirs.json'))
seen={(f['property'],f['key']) for f in a['findings']}
for f in b['findings']:
    if (f['property'],f['key']) not in seen:
        a['findings'].append(f)
a['findings'].sort(key=lambda f:(f['property'],f['key']))
open('/verif/known_findings.json','w').write(json.dumps(a,indent=1)+"\n")
PY
  git add known_findings.json
fi
python3 tools/gen_manifest.py && git add MANIFEST.json
git status --short | grep -E "^(UU|AA|DU|UD)" || echo "no conflicts left"
