#!/usr/bin/env python3
"""Regenerates the machine-written tables of DESIGN.md (between the BEGIN/END markers):
seeded changes (from seeded/*/meta.json), findings (from known_findings.json), claimed checks."""
import json, os, glob, re, sys
ROOT = os.path.dirname(os.path.dirname(os.path.abspath(__file__)))
sys.path.insert(0, os.path.join(ROOT, "tools"))
from propmeta import META

def seeded():
    rows = ["| id | breaks | needs in order to manifest | caught by |", "|---|---|---|---|"]
    for d in sorted(glob.glob(os.path.join(ROOT, "seeded", "*", "meta.json"))):
        m = json.load(open(d))
        rows.append("| %s | %s | %s | %s |" % (m["id"], m["property"], m["needs_to_manifest"].replace("|", "/"), m["detected_by"].replace("|", "/")))
    return "\n".join(rows)

def findings():
    kf = json.load(open(os.path.join(ROOT, "known_findings.json")))["findings"]
    groups = {}
    for f in kf:
        k = (f["property"], f["status"], f.get("commit", ""))
        groups.setdefault(k, []).append(f)
    rows = ["| property | status | /repo commit | keys | what |", "|---|---|---|---|---|"]
    for (p, st, c), fs in sorted(groups.items()):
        keys = ", ".join("`%s`" % f["key"] for f in fs[:4]) + (" … (%d keys)" % len(fs) if len(fs) > 4 else "")
        rows.append("| %s | %s | %s | %s | %s |" % (p, st, c, keys, fs[0]["what"].replace("|", "/")[:260]))
    return "\n".join(rows)

def checks():
    rows = ["| property | theorem modules | notes |", "|---|---|---|"]
    for p in sorted(META):
        rows.append("| %s | %s | notes/%s.md |" % (p, ", ".join(META[p]["lean_modules"]), p) if os.path.exists(os.path.join(ROOT, "notes", p + ".md")) else "| %s | %s | DESIGN §12 |" % (p, ", ".join(META[p]["lean_modules"])))
    return "\n".join(rows)

def main():
    path = os.path.join(ROOT, "DESIGN.md")
    s = open(path).read()
    for name, fn in (("SEEDED", seeded), ("FINDINGS", findings), ("CHECKS", checks)):
        b, e = "<!-- %s-TABLE-BEGIN -->" % name, "<!-- %s-TABLE-END -->" % name
        if b in s and e in s:
            s = s[:s.index(b) + len(b)] + "\n" + fn() + "\n" + s[s.index(e):]
    open(path, "w").write(s)

if __name__ == "__main__":
    main()
