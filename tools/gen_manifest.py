#!/usr/bin/env python3
"""Regenerates /verif/MANIFEST.json from tools/propmeta.py."""
import json, os, subprocess, sys
ROOT = os.path.dirname(os.path.dirname(os.path.abspath(__file__)))
sys.path.insert(0, os.path.join(ROOT, "tools"))
from propmeta import META, NOT_YET

hooks = subprocess.run(["git", "-C", "/repo", "log", "--format=%H %s"], stdout=subprocess.PIPE, text=True).stdout
hook_commits = [l.split()[0] for l in hooks.splitlines() if " verif hook" in l]
checks = []
for pid in sorted(META):
    m = META[pid]
    checks.append({
        "property_id": pid,
        "quick_cmd": "./check %s --tier quick" % pid,
        "thorough_cmd": "./check %s --tier thorough" % pid,
        "evidence_file": "/verif/evidence/%s.json" % pid,
        "replay_cmd_template": "./check %s --replay {path}" % pid,
        "engine": "lean4-proof+correspondence",
        "level_claimed": {"category": "proof", "text": m["level_text"], "design_ref": m["design_ref"]},
        "level_note": m["level_note"],
        "technique": m["technique"],
    })
manifest = {
    "version": 1,
    "setup_cmd": "./setup.sh",
    "hooks": {
        "guard": "--cfg rustzx_verif",
        "enable": "harness/.cargo/config.toml sets rustflags = [\"--cfg\", \"rustzx_verif\"] for the harness build, which compiles /repo's crates as path dependencies from the working tree",
        "baseline_off_cmd": "cd /repo && cargo test --workspace --no-fail-fast --offline",
        "source_commits": hook_commits,
        "add_only": True,
    },
    "engines": [{
        "name": "lean4-proof+correspondence",
        "path": "/verif/check",
        "serves_properties": sorted(META),
        "kind_free_text": "Lean 4 theorems over hand-written executable models (lean/ZxVerif), re-checked on every run with an axiom audit; Rust harness (harness/) runs the real crates from /repo's working tree against the compiled Lean model (lean/Driver) over a line protocol; executable specs adjudicate disagreements",
    }],
    "checks": checks,
    "not_applicable": [{"property_id": k, "reason": v} for k, v in sorted(NOT_YET.items())],
    "notes": "See DESIGN.md. known_findings.json lists genuine defects (open/fixed). Replays are written to /verif/replays.",
}
json.dump(manifest, open(os.path.join(ROOT, "MANIFEST.json"), "w"), indent=1)
print("MANIFEST.json: %d checks, %d not_applicable" % (len(checks), len(NOT_YET)))
