import re, os, sys
sys.path.insert(0,'/verif/tools')
from propmeta import META
def theorems(path):
    s=open(path).read()
    out=[]
    for m in re.finditer(r"/--(.*?)-/\s*(?:set_option[^\n]*\n)?theorem\s+([A-Za-z0-9_.']+)", s, flags=re.S):
        doc=' '.join(m.group(1).split())
        out.append((m.group(2), doc))
    return out
extra={
'C04':"Correspondence layers (harness/src/c04.rs, harness/src/sys.rs): (0) exhaustive: a 1-T contended memory cycle and the four port patterns (even/odd port x contended/uncontended high byte) at every one of the 69888/70908 frame T-states of both machines; (1) single memory-side bus cycles through the real `wait_mreq`; (2) single port cycles through the real `read_io`/`write_io`; (3) every one of the 1792 instruction encodings executed by the real Z80 inside the real Emulator at interesting frame T-states with random placement — the bus-cycle trace comes from the real Z80 on a recording bus and is replayed through the Lean machine model (exact) and the contention spec; (4) timed cycles after seeded histories of paging writes (locking writes included); (2b) the same port cycles and a quarter of the instruction cases on a machine with a host I/O extender attached that claims the port; (5) whole-machine lock-step: random programs on the real Emulator vs the Lean Z80 reference on the Lean Spectrum bus, everything compared after every instruction (half of the cases are block instructions with HL/DE on 16K boundaries inside the picture).",
'C05':"Correspondence (harness/src/c05.rs): clock level — random wait sequences through the real `wait_internal`, (offset, frames, INT) compared after every wait with model and with total = frames*L + offset; system level — counting loop (16 T/iteration) over 1..14 frames sliced 1/2/3/14 frames per call, IM 2 interrupt counters under HALT and busy loops, INT-window sweep at offsets 0..47.",
'C06':"Correspondence (harness/src/c06.rs): all 64 paging states x all 256 latch values with marker bytes per bank/ROM page; seeded histories of paging writes (canonical and partially decoded ports), memory writes and reads through all windows, host-supplied ROM sets (short reads on the second page); paging registers and 12 probe addresses compared after every operation.",
'C07':"Correspondence (harness/src/c07.rs): all 65536 ports x read/write x 48K/128K x kempston x mouse x extender predicates through the real `read_io`/`write_io` (devices recognised by distinguishable values / side effects, speaker latch set during the read sweep); floating bus at every T-state of a frame on both machines.",
'C17':"Correspondence (harness/src/c17.rs): every single control pressed and released alone read with all 256 selectors; `IN A,(C)` executed by the emulated CPU for a sub-sample; seeded event histories (<= 60 events, biased to a small working set so that several sources hold the same matrix position) with reads after every event; failing histories are shrunk (ddmin) and keyed by the set of controls involved.",
}
for p in ('C04','C05','C06','C07','C17'):
    m=META[p]
    lines=["# %s — %s"%(p,m['title']),"",
      "Built by the lead directly on main; the design entry is DESIGN.md §8 %s, deviations and mutation results are in DESIGN.md §12.2–12.4, seeded changes in §12.7."%p,"",
      "## Files","","| piece | file |","|---|---|"]
    files={'C04':['lean/ZxVerif/Model/Machine.lean','lean/ZxVerif/Spec/Machine.lean','lean/ZxVerif/Model/Spectrum.lean (whole machine)','lean/Driver/Machine.lean, lean/Driver/Sys.lean','harness/src/c04.rs, harness/src/sys.rs'],
           'C05':['lean/ZxVerif/Model/Machine.lean','lean/ZxVerif/Spec/Machine.lean','lean/Driver/Machine.lean','harness/src/c05.rs'],
           'C06':['lean/ZxVerif/Model/Machine.lean','lean/ZxVerif/Spec/Machine.lean','lean/Driver/Machine.lean','harness/src/c06.rs'],
           'C07':['lean/ZxVerif/Model/Machine.lean','lean/ZxVerif/Spec/Machine.lean','lean/Driver/Machine.lean','harness/src/c07.rs'],
           'C17':['lean/ZxVerif/Model/Input.lean','lean/ZxVerif/Spec/Input.lean','lean/ZxVerif/Lemmas/Input.lean, Bits.lean','lean/Driver/C17.lean','harness/src/c17.rs']}[p]
    for f in files: lines.append("| model/spec/driver/harness | `%s` |"%f)
    lines+=["","## Theorems",""]
    for mod in m['lean_modules']:
        path='/verif/lean/'+mod.replace('.','/')+'.lean'
        lines.append("### `%s`"%mod); lines.append("")
        for name,doc in theorems(path):
            lines.append("* `%s` — %s"%(name,doc))
        lines.append("")
    lines+=["## Correspondence","",extra[p],"","## Modelled code","",]+["* "+x for x in m['modelled_code']]+["","## Assumptions / partial parts",""]+["* "+x for x in m['assumptions']]+[""]
    open('/verif/notes/%s.md'%p,'w').write("\n".join(lines))
print('ok')
