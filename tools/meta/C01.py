from _common import COMMON_NOTE

_Z80_FILES = ['rustzx-z80/src/cpu.rs', 'rustzx-z80/src/registers.rs', 'rustzx-z80/src/bus.rs',
              'rustzx-z80/src/smallnum.rs', 'rustzx-z80/src/tables/mod.rs',
              'rustzx-z80/src/opcode/types.rs', 'rustzx-z80/src/opcode/group_nonprefixed.rs',
              'rustzx-z80/src/opcode/group_extended.rs', 'rustzx-z80/src/opcode/group_bits.rs',
              'rustzx-z80/src/opcode/internal_alu.rs', 'rustzx-z80/src/opcode/internal_rot.rs',
              'rustzx-z80/src/opcode/internal_block.rs', 'rustzx-z80/src/opcode/internal_stack.rs']

META = {'title': 'Every Z80 instruction yields the architected register/flag/memory/IO result',
 'lean_modules': ['ZxVerif.Props.C01', 'ZxVerif.Props.C01Laws', 'ZxVerif.Props.C01Laws2', 'ZxVerif.Props.C01Laws3'],
 'extract': ['Z80Tables'],
 'modelled_code': _Z80_FILES,
 'assumptions': ['the ground truth "NMOS Zilog Z80" is the Lean reference semantics ZxVerif/Model/Z80 (Variant.hw): a '
                 'transcription of the published documentation with arithmetic flag definitions; where rustzx (which '
                 'passes z80full/z80memptr/z80ccf/zexall) and the first draft of the reference disagreed the '
                 'reference was the suspect; it deliberately differs from the code only in MEMPTR after LD (nn),A / '
                 'OUT (n),A',
                 'modelled as the code behaves, hardware truth not established offline: IM 0 acts as RST 38h; a '
                 'halted CPU re-fetches HALT at an unchanged PC; the repeat cycle of LDIR/LDDR/CPIR/CPDR refreshes '
                 'F bits 5/3 from PC but not the Q latch; INIR/INDR/OTIR/OTDR repeat cycles leave MEMPTR alone',
                 'the harness-owned recording bus answers memory reads from a seeded pattern plus an overlay, port '
                 'reads from a script; the provided Z80Bus methods (read/write/wait_loop/read_word/write_word) are '
                 "the crate's own",
                 'the flag lookup tables in lean/ZxVerif/Extracted/Z80Tables.lean are a committed copy refreshed by '
                 'tools/extract.py (Z80Tables, re-read on every run of ./check C01); the behavioural correspondence covers the tables on every run'],
 'design_ref': 'DESIGN.md section 8, Shared Z80 model and C01',
 'technique': 'Lean 4: executable NMOS Z80 reference semantics over an abstract bus; table-vs-arithmetic flag '
              'theorems by bv_decide over whole operand spaces; structural decode/prefix/Q-latch laws for all states '
              'and buses; tied to the code by differential single-step execution of all 1792 encodings + sequences',
 'level_text': 'Lean 4 theorems: every table-driven flag computation of rustzx-z80 equals the arithmetic NMOS '
               'definition over its whole operand space (8/16-bit operands, all F), undefined ED opcodes are '
               'two-byte NOPs, DD/FD are neutral on instructions without an HL placeholder, the Q latch law, and '
               'program runs are folds of single steps; the reference semantics obeys the architectural laws of the Z80 '
               'for all states and memories (C01Laws*: involutions and inverse pairs such as EX/EXX/CPL/NEG twice, '
               'INC;DEC, PUSH;POP, RLD;RRD, the Nat/Int meaning of ADD/ADC/SUB/SBC/AND/OR/XOR/CP and of the 16-bit '
               'additions, DAA on packed BCD, LDIR/CPIR run to completion by induction, CALL/RET, DJNZ and the eight '
               'condition codes); the reference semantics is tied to Z80::emulate on every '
               'run by a correspondence check that enumerates all 1792 opcode encodings x forced and random states '
               'plus random instruction sequences and compares every register, latch and ordered bus access.',
 'level_note': COMMON_NOTE + ' Partial: hardware ground truth for obscure Z80 behaviour is represented by the Lean '
               'reference semantics (transcribed documentation), not by silicon; bv_decide (native axioms) is used '
               'for the finite operand-space table theorems; the whole-CPU equality code = reference is established '
               'by exhaustive-over-encodings differential testing, not by proof (no Rust-to-Lean translator).',
 'timeout_s': {'quick': 900, 'thorough': 6 * 3600}}
