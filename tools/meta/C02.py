from _common import COMMON_NOTE

_Z80_FILES = ['rustzx-z80/src/cpu.rs', 'rustzx-z80/src/registers.rs', 'rustzx-z80/src/bus.rs',
              'rustzx-z80/src/smallnum.rs', 'rustzx-z80/src/tables/mod.rs',
              'rustzx-z80/src/opcode/types.rs', 'rustzx-z80/src/opcode/group_nonprefixed.rs',
              'rustzx-z80/src/opcode/group_extended.rs', 'rustzx-z80/src/opcode/group_bits.rs',
              'rustzx-z80/src/opcode/internal_alu.rs', 'rustzx-z80/src/opcode/internal_rot.rs',
              'rustzx-z80/src/opcode/internal_block.rs', 'rustzx-z80/src/opcode/internal_stack.rs']

META = {'title': 'Interrupt, NMI, HALT and prefix sequencing follow the Z80 rules',
 'lean_modules': ['ZxVerif.Props.C02', 'ZxVerif.Props.C02Sys'],
 'modelled_code': ['rustzx-z80/src/cpu.rs (emulate, handle_interrupt, prefix chain)',
                   'rustzx-z80/src/opcode/group_nonprefixed.rs (EI, DI, HALT)',
                   'rustzx-z80/src/opcode/group_extended.rs (RETN/RETI, IM n)',
                   'rustzx-z80/src/opcode/internal_stack.rs', 'rustzx-z80/src/bus.rs',
                   'rustzx-z80/src/registers.rs'] ,
 'assumptions': ['INT and NMI are level inputs sampled once per Z80::emulate call through Z80Bus::int_active / '
                 'nmi_active; the harness scripts them (and the interrupt bus byte) per instruction boundary',
                 'one emulate call that accepts an interrupt also runs the first instruction of the service routine '
                 '(as the code does); predicates about the flip-flops are evaluated unless that instruction changes them',
                 'IM 0 is treated like IM 1 (RST 38h), as the property states for the Spectrum; NMI directly after '
                 'EI/DI is delayed like INT (the property is silent, the model records what the code does)',
                 'a halted CPU re-executes HALT at an unchanged PC (the property\'s wording), not PC+1 as real silicon',
                 'MEMPTR is not compared in C02 runs (it is C01\'s subject; a C02 run ends at a step after which only '
                 'MEMPTR differs, so the known LD (nn),A / OUT (n),A finding cannot leak into C02)'],
 'design_ref': 'DESIGN.md section 8, Shared Z80 model and C02',
 'technique': 'Lean 4: decision logic and entry sequences of the reference Z80 for all states and all buses; invariant '
              '"pending prefix implies interrupts held off" over all reachable states (any program, any line '
              'schedule); tied to the code by differential multi-step runs with scripted INT/NMI schedules plus '
              'independent predicate checks on the real observations',
 'level_text': 'Lean 4 theorems for every CPU state and every bus (hence every program and every INT/NMI schedule): '
               'INT is accepted only with IFF1 set, not after EI/DI, and in no reachable state inside a DD/FD/ED '
               'prefix chain (invariant by induction over runs); exact effects of INT (IM 0/1/2) and NMI entry '
               '(flip-flops, pushes, vector, HALT release, R); a halted CPU spins with one 4-T fetch; RETN/RETI copy '
               'IFF2 for all eight encodings. Tied to Z80::emulate by a correspondence check that is exhaustive over '
               'the control state (IFF1 x IFF2 x halted x skip x pending prefix x IM x line levels x 14 boundary '
               'instructions) and runs seeded random programs with scripted line schedules. Props/C02Sys.lean states the rules on '
               'the composed machine (Z80 model on the Spectrum bus model) for every program: IM 2 vector fetch through the '
               'memory map with the 16-bit wrap of the table address, pushes through the map (ROM drops them), entry '
               'times with ULA delays, acceptance iff IFF1 and no hold-off and frame clock < 32 at every boundary of every '
               'run, whole frames between acceptances, EI; HALT served exactly once per frame, RETN/RETI through the map.',
 'level_note': COMMON_NOTE + ' Partial: the whole-CPU equality code = reference is established by differential '
               'testing (exhaustive over the control-state matrix, sampled over programs/schedules), not by proof; '
               'real-silicon behaviour of HALT (PC+1 during the NOPs) and IM 0 (executing the bus byte) is outside '
               'the property as worded.',
 'timeout_s': {'quick': 900, 'thorough': 6 * 3600}}
