from _common import COMMON_NOTE

_Z80_FILES = ['rustzx-z80/src/cpu.rs', 'rustzx-z80/src/registers.rs', 'rustzx-z80/src/bus.rs',
              'rustzx-z80/src/smallnum.rs', 'rustzx-z80/src/tables/mod.rs',
              'rustzx-z80/src/opcode/types.rs', 'rustzx-z80/src/opcode/group_nonprefixed.rs',
              'rustzx-z80/src/opcode/group_extended.rs', 'rustzx-z80/src/opcode/group_bits.rs',
              'rustzx-z80/src/opcode/internal_alu.rs', 'rustzx-z80/src/opcode/internal_rot.rs',
              'rustzx-z80/src/opcode/internal_block.rs', 'rustzx-z80/src/opcode/internal_stack.rs']

META = {'title': 'Each instruction takes the documented T-states in the documented bus cycles',
 'lean_modules': ['ZxVerif.Props.C03', 'ZxVerif.Props.C03Sys'],
 'modelled_code': _Z80_FILES,
 'assumptions': ['a bus cycle is what the Z80Bus implementation receives: wait_mreq(addr, clk) (4-T fetch, 3-T '
                 'read/write), wait_no_mreq(addr, 1) (delay T-state carrying an address; wait_loop issues them one '
                 'by one), wait_internal(clk), read_io/write_io (one 4-T port cycle each; its internal split is the '
                 "machine's business, C04)",
                 'documented cycles = ZxVerif/Spec/Z80Cycles.lean, my transcription of the Zilog manual / the '
                 'Spectrum contention-pattern tables; totals 4/7/10/11/13/15/16/19/20/21/23',
                 'for interrupt entry only the T-state total and the memory cycles are compared (the property fixes '
                 'no order for the internal T-states)',
                 'delay cycles of a halted CPU carry the unchanged PC (the property\'s wording), not PC+1'],
 'design_ref': 'DESIGN.md section 8, Shared Z80 model and C03',
 'technique': 'Lean 4: the documented machine cycles as data; theorem that the reference model\'s bus log has exactly '
              'that shape for every instruction of every page, every state and memory, and that the shapes add up '
              'to the documented totals; tied to the code by comparing the ordered (kind, address, clocks) call '
              'sequence received by a recording Z80Bus for all 1792 encodings x all timing variants',
 'level_text': 'Lean 4 theorems for every CPU state and memory content: the bus cycles issued by each instruction of '
               'the unprefixed, DD/FD, ED, CB and DDCB/FDCB pages (taken and not-taken forms, every block-repeat '
               'iteration) and by INT/NMI entry are exactly the documented sequence (kind, address, clocks, order), '
               'and add up to the documented T-states (13/19/11 for interrupt entry, 21 vs 16 for repeats, 20/23 '
               'for DDCB); tied to Z80::emulate by a correspondence check over all 1792 opcode encodings with all '
               'timing variants forced, plus sequences and interrupt entries.',
 'level_note': COMMON_NOTE + ' Partial: the documented cycle table is my transcription (reviewable, 150 lines); the '
               'code = reference equality of the call sequences is established by exhaustive-over-encodings '
               'differential testing, not by proof. Props/C03Sys re-proves the shapes on the composed machine (the Lean Z80 reference on the Lean Spectrum bus): the timed operations each instruction appends to the machine\'s log are the documented cycles read against the memory the CPU sees, and with C04Sys the elapsed time of every instruction = documented T-states + the ULA delays over exactly those cycles.',
 'timeout_s': {'quick': 900, 'thorough': 6 * 3600}}
