from _common import COMMON_NOTE

META = {
 'title': 'ULA memory and I/O contention delays match the 48K/128K contention model',
 'lean_modules': ['ZxVerif.Props.C04', 'ZxVerif.Props.C04X', 'ZxVerif.Props.C04Sys', 'ZxVerif.Props.C03Sys'],
 'extract': ['Machine', 'Contended'],
 'modelled_code': ['rustzx-core/src/zx/machine/mod.rs (contention_clocks, port_is_contended, bank_is_contended, SPECS_48K/128K)',
                   'rustzx-core/src/zx/machine/specs.rs (derived line/frame lengths)',
                   'rustzx-core/src/zx/controller.rs (do_contention*, addr_is_contended, io_contention_first/last, wait_mreq, wait_no_mreq, wait_internal clock part, read_io/write_io timing)',
                   'rustzx-core/src/zx/memory.rs (get_page)', 'rustzx-z80/src/bus.rs (wait_loop, read, write defaults)',
                   'the whole impl Z80Bus for ZXController composed with the Z80 reference model (lean/ZxVerif/Model/Spectrum.lean) in the lock-step layer'],
 'assumptions': ['the sequence of bus cycles an instruction issues is the business of C03; here it is taken from the real Z80 running on a recording bus and replayed through the Lean machine model and the contention spec',
                 'the correspondence samples frame T-states (all window edges, all columns of selected lines, frame wrap, random) rather than all 69888/70908; the theorems cover every T',
                 'instructions whose OUT reaches the 128K paging latch in mid-instruction are skipped in the comparison'],
 'design_ref': 'DESIGN.md section 8, C04',
 'technique': 'Lean 4 proof: closed-form delay = property formula for all T (omega), I/O patterns and fold decomposition by invariants; tied to the code by differential timing of bus cycles and whole instructions',
 'level_text': 'Whole-program theorem on the composed machine (Z80 reference on the Spectrum bus, by the bounded closure theorem over every instruction): for every program, run length and paging history the emulated time that passes equals the property\'s time for the bus operations the CPU issued (delay table by (T-T0) mod 8 inside the picture lines, contended ranges/banks as paged when each operation starts, the four port patterns) = plain clocks + the prescribed delays. Theorems in Lean 4 for every frame T-state and both machines: the transcribed contention function equals the property\'s formula, the wait releases the CPU in a free slot, the four port patterns, uncontended cycles are never delayed, and elapsed time of any bus-cycle sequence = plain clocks + delays at contended cycle starts. The model is tied to the Rust code on every run by timing real bus cycles, port cycles and all 1792 instruction encodings inside the real Emulator against model and spec.',
 'level_note': COMMON_NOTE + ' bv_decide: none in Props/C04 itself; Props/C04Sys uses one bv_decide fact (a port with A15=A1=0 lies below 0x8000) and inherits the bit-field facts of C06 (bank index below 8, ROM bit). The whole-program theorem is about the Lean Z80 reference on the Lean Spectrum bus; both are tied to the real Emulator by the lock-step layer. Props/C03Sys gives the per-instruction form on that machine: for every instruction of every page and for interrupt entry, at any frame T-state in any state satisfying the invariant, elapsed time = documented T-states + the prescribed delays over exactly the documented cycles of that instruction.',
}
