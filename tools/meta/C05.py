from _common import COMMON_NOTE

META = {
 'title': 'Frames last 69888/70908 T with a 32-T INT pulse; no T-state is ever lost',
 'lean_modules': ['ZxVerif.Props.C05', 'ZxVerif.Props.C04X', 'ZxVerif.Props.C05X', 'ZxVerif.Props.C05Sys', 'ZxVerif.Props.C05Prog', 'ZxVerif.Props.C05Halt'],
 'extract': ['Machine', 'Contended', 'FrameClock'],
 'modelled_code': ['rustzx-core/src/zx/controller.rs (wait_internal clock part, new_frame, int_active, frames_count)',
                   'rustzx-core/src/zx/machine/mod.rs + specs.rs (clocks_frame, interrupt_length)',
                   'rustzx-core/src/emulator/mod.rs (emulate_frames frame counting, exercised by the system-level runs)',
                   'rustzx-core/src/zx/controller.rs impl Z80Bus (the composed machine lean/ZxVerif/Model/Spectrum.lean; tied by the lock-step layer of C04)'],
 'assumptions': ['a single bus wait is shorter than a frame (the machine issues at most 13 T at once); hypothesis of time_conserved, checked in the correspondence',
                 'the system-level programs rely on the T-states of INC BC, JP nn, HALT and the IM 2 entry (C03)',
                 '"interrupted exactly once per frame" is proved at clock level (INT window, no second window in a frame) and observed for real programs; the CPU acceptance rules are C02'],
 'design_ref': 'DESIGN.md section 8, C05',
 'technique': 'Lean 4 proof: time-conservation invariant by induction over wait lists, INT window characterisation; tied to the code by differential clock runs and real counting/interrupt programs',
 'level_text': 'Theorems in Lean 4 over every list of bus waits on both machines: frames*L + offset = sum of waits, offset stays inside the frame, overrun carried, INT asserted iff offset < 32 (i.e. iff total time mod L < 32). Tied to the Rust code on every run by driving the real wait_internal with random wait sequences (exact comparison after every wait) and by real Z80 programs under emulate_frames (T-state accounting of a counting loop over 1..14 frames with different call slicings; IM 2 interrupt counters; INT-window sweep). In addition wait_internal, new_frame, int_active, frames_count and reset_frame_counter are translated statement by statement from controller.rs on every run (tools/extract.py, table FrameClock) and proved equal to the model for every clock value and every wait (Props/C05X: the >= test against the frame length, the carried overrun, the < 32 INT test; conservation restated over the translated function).'
               ' Whole-program form (Props/C05Prog): in every state a program can reach from reset the frame offset lies inside the frame, a maskable interrupt is accepted only in the first 32 T-states of a frame, and the INT line is asserted exactly while time since reset mod frame length < 32. Liveness (Props/C05Halt.halt_wakes): a CPU waiting in HALT with interrupts enabled has the interrupt of the next frame accepted at a boundary less than 10 T-states after the frame start, by induction on the distance to the frame end (each halted turn costs 4..10 T-states and cannot step over the 32-T window).',

 'level_note': COMMON_NOTE + ' No bv_decide in this property.',
}
