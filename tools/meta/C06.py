from _common import COMMON_NOTE

META = {
 'title': 'CPU-visible memory follows the Spectrum memory map and 128K paging rules',
 'lean_modules': ['ZxVerif.Props.C06', 'ZxVerif.Props.C06X', 'ZxVerif.Props.C06Sys', 'ZxVerif.Props.C06Prog'],
 'extract': ['Paging'],
 'modelled_code': ['rustzx-core/src/zx/memory.rs (ZXMemory: map, read, write, remap, paged_address, rom_page_data_mut)',
                   'rustzx-core/src/zx/controller.rs (write_7ffd, read_internal, write_internal memory part, ZXController::new paging fields)',
                   'rustzx-core/src/emulator/mod.rs (load_rom_binary_16k_pages, peek)'],
 'assumptions': ['that a port write reaches write_7ffd exactly for the latch addresses is C07; the histories here use latch-decoding ports (canonical and partially decoded)',
                 'embedded ROM images are data; the correspondence uses host-supplied ROM sets generated from a formula shared with the model',
                 'RAM contents are modelled as functions bank -> offset -> byte (no size bound in the proofs)'],
 'design_ref': 'DESIGN.md section 8, C06',
 'technique': 'Lean 4 proof: refinement of the concrete paging/map state to an abstract bank map, invariant + induction over operation histories; tied to the code by an exhaustive 64x256 paging sweep and seeded memory histories',
 'level_text': 'Whole-program corollaries on the composed machine (Z80 reference on the Spectrum bus) by a closure theorem over every instruction: ROM never changes and a locked/48K machine keeps its map under every program. Refinement theorem in Lean 4: for every history of paging writes and memory writes the concrete model (four-slot map + latch + lock) equals the abstract spec (contents per bank, last accepted latch value, lock); corollaries: window map, ROM read-only, lock is forever, read-your-write through exactly the aliases, 48K ignores paging, remap never panics. Tied to the Rust code on every run: all 64 paging states x all 256 latch values, plus seeded histories with reads through every window, compared with model and spec after every operation. In addition write_7ffd, restore_7ffd, the reset maps of ZXMemory::new / ZXController::new, the arrays ZXMemory::read / write go to, paged_address and the panic guards of remap are translated statement by statement from the source on every run (tools/extract.py, table Paging) and proved equal to the model for every state and every written byte, hence to the spec\'s out7ffd (Props/C06X).'
               ' Whole-program form (Props/C06Prog): after every program run from reset on the 128K (any instructions, port writes to any port, interrupts) the window map, the physical target of writes, the displayed screen bank are what the last accepted latch value says, and the remap panic is unreachable.',

 'level_note': COMMON_NOTE + ' bv_decide is used for two 8-bit facts (ROM bit, bank < 8).',
}
