from _common import COMMON_NOTE

META = {
 'title': 'Port addresses reach the right device under Spectrum partial decoding',
 'lean_modules': ['ZxVerif.Props.C07', 'ZxVerif.Props.C07X', 'ZxVerif.Props.C07Sys'],
 'extract': ['Ports'],
 'modelled_code': ['rustzx-core/src/zx/controller.rs (the device-selection chains of read_io and write_io, floating_bus_value)',
                   'rustzx-core/src/utils/screen.rs (bitmap_line_addr)', 'rustzx-core/src/host/mod.rs (IoExtender contract)'],
 'assumptions': ['the host extender is an arbitrary predicate on the port address (a Bool per port in the model; mask/value predicates in the correspondence)',
                 'devices are recognised in the correspondence by distinguishable values / side effects prepared through canonical ports outside the extender\'s claim',
                 'floating bus: the spec admits any display/attribute byte while the ULA fetches (the property does not fix which); the model is compared exactly',
                 'keyboard row AND and EAR bit are C17'],
 'design_ref': 'DESIGN.md section 8, C07',
 'technique': 'Lean 4 proof: bv_decide over all 65536 ports x all device configurations for the decode chains vs. the per-device select predicates; tied to the code by an exhaustive port sweep and by a branch-by-branch translation of the decode chains of read_io/write_io into Lean on every run',
 'level_text': 'Theorems in Lean 4 quantified over every 16-bit port and every configuration (bv_decide): whenever exactly one device (or none) is selected the code\'s decode chain routes the access to it and to no other; the extender sees exactly its ports; paging only on the 128K; floating bus idle outside the fetch windows and a display/attribute address inside. Tied to the Rust code on every run by executing all 65536 ports x read/write x 2 machines x kempston/mouse/extender configurations through the real read_io/write_io and the floating bus at every T-state of a frame; in addition the two if/else-if chains are translated branch by branch from the source text on every run (tools/extract.py, table Ports) and proved equal to the model\'s decode for every port and configuration (Props/C07X).',
 'level_note': COMMON_NOTE + ' bv_decide carries the port-decoding theorems (its native axioms are listed per theorem in the evidence).',
}
