from _common import COMMON_NOTE

META = {'title': 'Displayed picture is the standard decode of the ULA-visible screen memory',
 'lean_modules': ['ZxVerif.Props.C08', 'ZxVerif.Props.C08Sys', 'ZxVerif.Props.C08X'],
 'extract': ['VideoConsts'],
 'modelled_code': ['rustzx-core/src/utils/screen.rs',
                   'rustzx-core/src/zx/video/screen.rs',
                   'rustzx-core/src/zx/video/colors.rs',
                   'rustzx-core/src/zx/memory.rs',
                   'rustzx-core/src/zx/machine/mod.rs (frame/line constants, contention_clocks, bank_is_contended)',
                   'rustzx-core/src/zx/controller.rs (wait_internal, new_frame, write_internal, Z80Bus::write/wait_mreq, '
                   'write_7ffd, set_border_color, write_io, refresh_memory_dependent_devices)',
                   'rustzx-core/src/emulator/mod.rs (execute_poke)',
                   'rustzx-core/src/emulator/screenshot/scr.rs',
                   'rustzx-core/src/emulator/fastload/tap.rs, snapshot/sna.rs, snapshot/szx.rs (only their effect on '
                   'RAM pages and the screen cache: write_internal / whole-page copy + refresh)'],
 'assumptions': ['the Lean model ZxVerif/Model/Video.lean is a hand transcription; its agreement with the Rust code is '
                 'checked by differential execution per delivered frame (hash of all 49152 pixels) on seeded screens, '
                 'paths and schedules, not exhaustively',
                 'frame clocks only move forward within a frame (the controller guarantees it); in the correspondence '
                 'time passes only through wait_internal, the clock hook is not used',
                 'SNA/SZX loads are exercised at the start of a frame (their internal ordering of memory copy, clock '
                 'advance and cache refresh is then unobservable); CPU writes, real instructions, pokes, tape fast-load '
                 'and SCR loads at arbitrary beam positions',
                 'ROM contents and the IO extender are outside this model; AY ports have no video effect'],
 'design_ref': 'DESIGN.md section 8, C08; Appendix E "C08 stdDecode"',
 'technique': 'Lean 4 proof: closed forms of the rendering loops, render invariant by induction over clock '
              'schedules, cache-coherence invariant over all operations (with the poke defect isolated), finite address '
              'tables by kernel evaluation; tied to the code by differential correspondence on real frame buffers',
 'level_text': 'Theorems in Lean 4 over a model of ZXScreen/ZXMemory/controller: address decode is the inverse of the '
               'property formula (whole table), every rendered block is the standard decode of the shadow bank at its '
               'draw time for all monotone clock schedules, a frame without memory change delivers exactly stdDecode '
               'of the visible RAM bank for all contents and all wait partitions, flash swaps every 16 frames, the '
               'screen cache equals RAM after every operation list (false for execute_poke: negation proved on a '
               'witness, partial theorem without screen pokes, full theorem for the repaired variant), before/after '
               'the beam. Whole-program form (Props/C08Sys, Z80 reference on a bus whose primitives are the controller '
               'operations of this model, by the closure theorem over every instruction): after every program on both '
               'machines the state is well formed, the screen cache equals RAM (both screens on the 128K) and the '
               'renderer is level with the clock; a completed frame no program write touched is exactly stdDecode of '
               'the displayed bank, and a CPU write before/after the beam shows in this/the next frame whatever the '
               'program does besides. The model is tied to the Rust code on every run by a correspondence check through a real '
               'Emulator with recording frame buffers, the executable stdDecode adjudicating.',
 'level_note': COMMON_NOTE + ' The two address tables (6144 entries each) are proved by `decide +kernel` (kernel '
               'evaluation, no native axiom). Partial: the correspondence is sampled (seeded), not exhaustive; '
               'execute_poke violated the property on the pinned tree (finding '
               'C08/stable-frame/stale-writer=poke, repaired in /repo by fix commit b0d1908, see known_findings.json; '
               'the model variant matching the tree under test is detected on every run).'}
