from _common import COMMON_NOTE

META = {'title': 'Border pixels show the colour written to the ULA before the beam got there',
 'lean_modules': ['ZxVerif.Props.C09', 'ZxVerif.Props.C09Sys', 'ZxVerif.Props.C09X'],
 'extract': ['VideoConsts'],
 'modelled_code': ['rustzx-core/src/zx/video/border.rs',
                   'rustzx-core/src/zx/constants.rs (screen / border geometry)',
                   'rustzx-core/src/zx/machine/mod.rs (first pixel, line and frame lengths, contention_clocks)',
                   'rustzx-core/src/zx/controller.rs (set_border_color, write_io incl. io_contention_first/last, '
                   'wait_internal, new_frame)',
                   'rustzx-core/src/emulator/snapshot/sna.rs (only: set_border_color(0, border byte))'],
 'assumptions': ['the Lean model ZxVerif/Model/Video.lean is a hand transcription; its agreement with the Rust code is '
                 'checked by differential execution per completed frame (hash of all 76800 border pixels), on seeded '
                 'write schedules, not exhaustively',
                 'feature precise-border is on (rustzx-core "full"); no IO extender claims the ports used',
                 'what the border shows before the very first port write (power-on: white buffer, black reported) and '
                 'during a frame in which a snapshot is loaded is not fixed by the property and not adjudicated',
                 'even ports that are also AY addresses (A15=A14=1 or A15=1,A14=0 with A1=0) go to the AY in the code; '
                 'the correspondence uses even ports that select the ULA only'],
 'design_ref': 'DESIGN.md section 8, C09; Appendix E "C09 beam position"',
 'technique': 'Lean 4 proof: closed form of fill_to, beam position = spec formula for all T, frame invariant of '
              'set_border by induction over sorted write lists, new_frame completion; tied to the code by differential '
              'correspondence on real border buffers',
 'level_text': 'Theorems in Lean 4 over a model of ZXBorder and the port-write path: next_border_pixel equals the '
               'property beam position for every frame clock on both machines (2 px/T, 224/228 T per line, first '
               'picture pixel at 14336/14362), positions are monotone and fill_to never repaints behind the beam, for '
               'every write list with non-decreasing clocks the completed frame shows at every one of the 76800 pixels '
               'exactly the colour of the last write whose beam position is <= the pixel (so also within the +-16 px '
               'tolerance), frames without writes repaint in the current colour, the reported colour is the low 3 bits '
               'of the last ULA write or snapshot border over all operation lists. Whole-program form (Props/C09Sys, '
               'Z80 reference on a bus whose write_io is this model\'s, by the closure theorem over every instruction): '
               'the ULA writes of every program reach set_border with non-decreasing clocks within a frame, the '
               'border buffer invariant holds after every program, every completed frame shows what the program wrote, '
               'the reported colour is the low 3 bits of its last ULA write. The model is tied to the Rust code on '
               'every run by a correspondence check on a real Emulator with recording frame buffers, the executable '
               'spec adjudicating.',
 'level_note': COMMON_NOTE + ' Partial: the correspondence is sampled (seeded), not exhaustive. The spec tolerance of '
               '16 px means a beam-arithmetic slip of a few pixels in the code is reported as a model mismatch '
               '(no-failing-input-found) rather than as a spec-violating input.'}
