from _common import COMMON_NOTE

META = {'title': 'Fast tape loading leaves the machine exactly as the ROM loader would',
 'lean_modules': ['ZxVerif.Props.C10', 'ZxVerif.Props.C11X', 'ZxVerif.Props.C10X'],
 'extract': ['TapeConsts', 'FastLoad'],
 'modelled_code': ['rustzx-core/src/emulator/fastload/tap.rs (fast_load_tap)',
                   'rustzx-core/src/zx/tape/tap.rs (Tap: next_block, next_block_byte, 128-byte buffer, rewind)',
                   'rustzx-core/src/zx/tape/mod.rs (TapeImpl)',
                   'rustzx-core/src/host/io.rs (LoadableAsset::read_exact, BufferCursor end-of-data convention)',
                   'rustzx-core/src/zx/controller.rs (pc_callback trap at 0x056B, write_internal ignoring ROM)',
                   'rustzx-core/src/emulator/mod.rs (load_tape, process_fast_load_event)'],
 'assumptions': ['the Lean model ZxVerif/Model/Tape.lean is a hand transcription; its agreement with the Rust code is '
                 'checked by differential execution on every run (sampled: random TAP images and request sequences)',
                 'the ROM LD-BYTES routine is represented by the byte-level function Spec.ldBytes (DESIGN Appendix E); '
                 'it is validated against the real ROM running in real time by the C11 check, not proved from ROM code',
                 'the dozen ROM instructions around the trap (0x0556-0x056B prologue, SA/LD-RET epilogue, RET NZ at '
                 '0x056B) are modelled by Model.Tape.sysCall and executed for real by the emulated CPU in the check',
                 'requests whose destination overlaps the caller stack (24 bytes below the return address) are not '
                 'generated; a request reaching a truncated tail of the image is compared with the model only',
                 'asset read failures other than end-of-data (host I/O errors) are not injected here (C15/C16)'],
 'design_ref': 'DESIGN.md section 8, C10; Appendix E "C10 ldBytes"; section 9 #4',
 'technique': 'Lean 4 proof: buffer-machine invariant (induction over block length), refinement of fast_load_tap '
              'to a byte-level LD-BYTES by induction over the block; tied to the code by differential correspondence '
              'through a real Emulator with the embedded ROM',
 'level_text': 'Refinement theorems in Lean 4: for every block length the 128-byte buffer machine delivers exactly the '
               "block's bytes then none; next_block skips leftovers; for every tape, request and memory the model of "
               'fast_load_tap equals the byte-level LD-BYTES spec on (memory, IX, DE, carry) and consumes exactly one '
               'block; at the end of the tape the repaired model changes nothing (the code of the pinned commit swapped AF and '
               'reported success: proved as a negation with a witness; repaired in /repo by fix commit fce67ef). The model is tied to the Rust '
               'code on every run by a correspondence check (real Emulator + ROM, component-level Tap) with the '
               'executable spec adjudicating every disagreement; in addition fast_load_tap is translated statement '
               'by statement from fastload/tap.rs on every run (tools/extract.py, table FastLoad) and the loop, the '
               'write-back and the whole function assembled from the translated statements are proved equal to the '
               'model for every state (Props/C10X), so the LD-BYTES refinement is restated about the source text.',
 'level_note': COMMON_NOTE + ' Partial: LD-BYTES itself is a byte-level reading of the ROM routine (validated against '
               'the real ROM by C11/C12 system runs), not derived from the ROM bytes.',
 'timeout_s': {'quick': 600, 'thorough': 6 * 3600}}
