from _common import COMMON_NOTE

META = {'title': 'A playing tape presents each TAP block as the standard loader waveform',
 'lean_modules': ['ZxVerif.Props.C11', 'ZxVerif.Props.C11X', 'ZxVerif.Props.C11Sys', 'ZxVerif.Props.C11Y'],
 'extract': ['TapeConsts', 'TapeMachine'],
 'modelled_code': ['rustzx-core/src/zx/tape/tap.rs (process_clocks, the pulse state machine, pulse constants, '
                   'next_block/next_block_byte feeding it)',
                   'rustzx-core/src/zx/tape/mod.rs (TapeImpl)',
                   'rustzx-core/src/zx/controller.rs (wait_internal feeding elapsed clocks to the tape; EAR bit 6 of '
                   'the ULA read) - exercised by the system-level run, not modelled separately'],
 'assumptions': ['the Lean model ZxVerif/Model/Tape.lean is a hand transcription; its agreement with the Rust code is '
                 'checked by differential execution on every run (exact edge times under seeded step schedules)',
                 'schedules: every call of process_clocks passes 1..16 T-states (the machine issues at most 8 at a time); '
                 'the theorems are for all such schedules, the component correspondence samples five schedule families; that '
                 'the real machine keeps this hypothesis whatever the CPU executes (HALT, block instructions, loops, '
                 'interrupts, contended code) is checked by the system-level EAR layer: waveform sampled once per '
                 'emulated instruction, tolerance widened by exactly the sampling interval (proved sound)',
                 'the final clause (the ROM loader loads any tape as fast loading does) is carried by the threshold-decoder '
                 'theorem plus execution of the real 48K ROM against the playing tape for a sample of small tapes; the '
                 "ROM's own edge-timing loop is not modelled",
                 'blocks of length 0 (no flag byte) have no standard waveform: the spec leaves such images undecided, the '
                 'model reproduces the InvalidTapFile error of the code and is compared with it',
                 'absolute polarity of the EAR level is stated in the theorems (block starts high) but not demanded of '
                 'the implementation by the adjudicating spec (the property text fixes pulse lengths and counts only)'],
 'design_ref': 'DESIGN.md section 8, C11; Appendix E "C11 nominal"',
 'technique': 'Lean 4 proof: timer lemma for the delay countdown (all step schedules), chain of state-machine firings = '
              'nominal pulse list by induction over blocks, bytes and bits on top of the C10 buffer invariant, '
              'combination into a tolerance theorem; threshold-decoder theorem; tied to the code by exact edge-time '
              'correspondence and by running the real ROM loader',
 'level_text': 'Theorems in Lean 4, for every well-formed tape and every schedule of 1..16 T steps: process_clocks never '
               'fails, its transitions are exactly the nominal sequence (pilot count by flag, 667, 735, two pulses per bit '
               'MSB first for every byte, pause) and every pulse lasts nominal+1..nominal+31 T (within the property\'s '
               '0..32); a threshold decoder recovers exactly the block bytes. System level (C11Sys): the same for schedules with zero-length '
               'calls (steps 0..16: nominal..nominal+31) and for the raw wait_internal schedule of the composed machine under '
               'every program (steps 0..13, do_contention\'s wait_internal(0) included): every pulse nominal..nominal+25 T, '
               'in nominal order, and the pulses provably arrive. The model is tied to the Rust code on '
               'every run by an exact edge-time correspondence under seeded schedules, the executable waveform spec '
               'adjudicating; the real 48K ROM loads sample tapes in real time and is compared with LD-BYTES spec and '
               'fast loading, and the EAR waveform is sampled through the real machine under arbitrary CPU activity. The state machine of '
               'process_clocks is also translated arm by arm from tap.rs on every run (table TapeMachine) and proved equal to '
               'the model (Props/C12X); Props/C11Y restates the waveform theorem over the translated function.',
 'level_note': COMMON_NOTE + ' Partial: the ROM loader\'s own edge-timing loop is not modelled; "the ROM loader loads any '
               'tape" rests on the threshold-decoder theorem plus sampled real-ROM runs.',
 'timeout_s': {'quick': 900, 'thorough': 6 * 3600}}
