from _common import COMMON_NOTE

META = {'title': 'Play, stop and rewind behave like a cassette deck for every command history',
 'lean_modules': ['ZxVerif.Props.C12', 'ZxVerif.Props.C11X', 'ZxVerif.Props.C12X'],
 'extract': ['TapeConsts', 'TapeMachine'],
 'modelled_code': ['rustzx-core/src/zx/tape/tap.rs (play, stop, rewind, state/prev_state, end of tape in process_clocks)',
                   'rustzx-core/src/zx/tape/mod.rs (TapeImpl)',
                   'rustzx-core/src/zx/tape/empty.rs (Empty: no tape inserted; trivial, not modelled)',
                   'rustzx-core/src/emulator/mod.rs (play_tape, stop_tape, rewind_tape forwarding) - exercised by the '
                   'system-level run'],
 'assumptions': ['the Lean model ZxVerif/Model/Tape.lean is a hand transcription (both the code of the pinned commit and the '
                 'repaired code); its agreement with the Rust code is checked by differential execution on every run',
                 'the cassette-deck spec advances with the same sampling rule as the machine (a pulse that has run out is '
                 'replaced by the next one on the following call), so that refinement is an exact equality of edge '
                 'streams; that this sampling keeps every pulse within nominal..nominal+32 T is C11',
                 'advance n is any number of T-states per call (the property quantifies over advance n); the correspondence '
                 'uses calls of 1..16 T and coarse calls of 4000/60000 T to reach every part of the waveform',
                 'asset seek failures of rewind are not injected (in-memory asset)'],
 'design_ref': 'DESIGN.md section 8, C12; Appendix E "C12 deck"; section 9 #10',
 'technique': 'Lean 4 proof: simulation relation between the tape model and a cassette deck (cursor into the nominal pulse '
              'list), preserved by every command, by induction over command histories on top of the C11 firing chain; '
              'negations for the code of the pinned commit by concrete witness histories; tied to the code by exact edge-stream '
              'correspondence under command histories and by real-ROM loads after scripted deck commands',
 'level_text': 'Refinement theorem in Lean 4 for all finite histories over {play, stop, rewind, advance n} and all '
               'well-formed tapes: the tape model of the repaired code (fix commit dbf1abb in /repo) and the cassette-deck spec agree on '
               'EAR level and running/stopped after every command (so stopped = frozen, stop..play resumes exactly, rewind '
               'and end of tape restart with a clean pilot). For the code of the pinned commit the refinement is proved for histories '
               'avoiding the three stale-state paths and refuted by witness histories (stop;stop;play, rewind while '
               'playing, play after end of tape following an earlier stop) - findings recorded as fixed in known_findings.json. The model is tied to the '
               'Rust code on every run by a correspondence check over command histories (real Tap) and real-ROM loads; in addition play, '
               'stop, rewind and process_clocks (guard, countdown, every arm of the state machine) are translated statement by '
               'statement from tap.rs on every run (tools/extract.py, table TapeMachine) and proved equal to the repaired model '
               'for every state (Props/C12X), so the refinement and resume theorems are restated about the source text.',
 'level_note': COMMON_NOTE + ' For the unrepaired code the full refinement is false (findings C12/*, fixed in /repo); its '
               'partial theorem covers histories without stop-while-stopped, without rewind, and not running off the end.',
 'timeout_s': {'quick': 900, 'thorough': 6 * 3600}}
