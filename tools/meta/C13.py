from _common import COMMON_NOTE

META = {'title': 'SNA save then load restores the machine; saving is side-effect free',
 'lean_modules': ['ZxVerif.Props.C13', 'ZxVerif.Props.C13X'],
 'extract': ['SnaLayout'],
 'modelled_code': ['rustzx-core/src/emulator/snapshot/sna.rs (load, save, ScopedSnapshotState)',
                   'rustzx-z80/src/registers.rs (setters used by load, get_*_alt used by save)',
                   'rustzx-z80/src/cpu.rs (set_im, push_pc_to_stack, pop_pc_from_stack)',
                   'rustzx-core/src/zx/controller.rs (write_7ffd, set_border_color, refresh_memory_dependent_devices)',
                   'rustzx-core/src/zx/memory.rs (read, write, ram_page_data, ram_page_data_mut, get_page)'],
 'assumptions': ['the Lean model ZxVerif/Model/Snapshot.lean is a hand transcription; its agreement with the Rust code '
                 'is checked by differential execution on seeded random machine states (byte-exact for the saved file)',
                 'RAM banks are abstract byte lists of length 16384 (hypothesis WF of the theorems); the harness '
                 'uses seeded 16 KiB patterns plus explicit bytes and compares banks by 64-bit FNV-1a hashes',
                 'machine states are reachable ones: paging fields are those produced by a write of the latch value '
                 'from the unlocked reset state',
                 'MEMPTR/Q, the frame T-state counter and the beeper level are not carried by SNA and not compared'],
 'design_ref': 'DESIGN.md section 8, C13',
 'technique': 'Lean 4 proof: exact characterisation of load-after-save over abstract banks (list append/slice '
              'lemmas, induction over the bank lists), parameterised by the candidate repairs; tied to the code '
              'by differential correspondence with byte-exact comparison of the saved file, and by a '
              'statement-by-statement translation of the header stores / setters and file pieces of sna.rs into Lean '
              'on every run',
 'level_text': 'Round-trip and purity theorems in Lean 4 for all machine states, all receiving states and every '
               'bank at 0xC000 over a model of sna.rs parameterised by the candidate repairs (full statements for '
               'the repaired code, partial statements plus proved counter-examples for the code as it is); the '
               'model variant matching the tree under test is detected and tied to the Rust code on every run by '
               'a correspondence check (byte-exact saved file, full state after load) with the executable SNA '
               'layout spec adjudicating every disagreement; in addition the byte layout of sna.rs (every header '
               'store of save, every setter of load with the bytes it is fed, the order and offsets of the pieces of '
               'the 48K / 128K file) is translated from the source text on every run (tools/extract.py, table '
               'SnaLayout) and proved to be the documented SNA format and exactly the layout the model encodes and '
               'decodes with (Props/C13X).',
 'level_note': COMMON_NOTE + ' The theorems for the unrepaired code are partial by construction: each known '
               'defect (HL\' written from HL, receiver lock / halt / EI-pending / prefix state surviving a load, '
               '48K save writing PC into live RAM) is excluded by a hypothesis and proved to be a real '
               'counter-example otherwise.'}
