from _common import COMMON_NOTE

META = {'title': 'Loading a well-formed SNA/SZX/SCR file yields exactly the described state',
 'lean_modules': ['ZxVerif.Props.C14', 'ZxVerif.Props.C14X'],
 'extract': ['SzxLayout', 'SnaLayout'],
 'modelled_code': ['rustzx-core/src/emulator/snapshot/szx.rs (load, process_z80r/spcr/ay/keyb/amxm/ramp/crtr_block)',
                   'rustzx-core/src/emulator/snapshot/sna.rs (load)',
                   'rustzx-core/src/emulator/screenshot/scr.rs (load)',
                   'rustzx-core/src/zx/sound/ay.rs (select_reg, write, set_regs)',
                   'rustzx-core/src/zx/controller.rs (write_7ffd, set_border_color, the 0xFE branch of write_io, '
                   'refresh_memory_dependent_devices)',
                   'rustzx-core/src/zx/memory.rs (read, write, ram_page_data_mut, get_page)',
                   'rustzx-z80/src/registers.rs, cpu.rs (setters used by the loaders, set_im, pop_pc_from_stack)',
                   'rustzx-z80/src/codegen.rs (JP written by scr::load)'],
 'assumptions': ['the Lean model ZxVerif/Model/Snapshot.lean is a hand transcription; its agreement with the Rust code '
                 'is checked by differential execution on files from an independent writer inside the harness',
                 'zlib: inflate is a parameter of model and spec (never an axiom); the law inflate(deflate x) = some x '
                 'is a hypothesis of ramp_compressed_eq_stored; in the correspondence the model receives a tag where '
                 'the real code receives a zlib stream produced by two encoders inside the harness (stored blocks, one '
                 'fixed-Huffman block with distance-1 matches), so miniz_oxide inflate is exercised, not modelled',
                 'well-formed = accepted by Spec.describeSzx / describeSna / describeScr (chunk sizes as the format '
                 'fixes them, pages valid for the machine id, unknown ids not case variants of known ones)',
                 'ZXSTZF_HALTED: the format texts leave open whether PC is at or after the HALT; the theorem uses '
                 '"at the HALT" (libspectrum), the adjudication accepts either',
                 'the Kempston *joystick* (KEYB chunk), MEMPTR/Q, the frame T-state counter and the beeper level are '
                 'compared against the model only: the property does not name them',
                 'audible AY state is observed as an amplitude/pitch contour class (silent, burst, steady, three '
                 'pitches) of the audio generated from the return of the load on, and modelled as the register '
                 'file of the sound generator plus whether its envelope generator is at the start of its shape; '
                 'where the envelope stands relative to the SZX frame clock is left open (notes/C14.md)',
                 'the receiving emulator is in a reachable state: sound-chip register file of 14 bytes, 48K machine '
                 'with paging disabled'],
 'design_ref': 'DESIGN.md section 8, C14',
 'technique': 'Lean 4 proof: chunk-by-chunk simulation between the loader model (fuelled chunk walker) and the '
              'executable format spec (parse, then fold), for every byte string the spec accepts; parameterised by the '
              'candidate repairs; tied to the code by differential correspondence on independently written files, and '
              'by a statement-by-statement translation of the chunk layouts of szx.rs (and the header layout of sna.rs) '
              'into Lean on every run',
 'level_text': 'Refinement theorem in Lean 4 (szx_load_is_describe): for every well-formed zx-state file (any chunk '
               'order, unknown chunks, stored or compressed pages, missing pages) and every state of the receiving '
               'machine the repaired loader model yields exactly the abstract state the format spec describes, likewise '
               'for every well-formed SNA file (sna_load_is_describe); '
               'companion theorems for SCR, model mismatch, AY audible state and compressed-vs-stored agreement; for '
               'the code as it is each known defect is proved as a chunk-level counter-example. The model variant '
               'matching the tree under test is detected and tied to the Rust code on every run by a correspondence '
               'check (independent SZX/SNA/SCR writer in the harness, full state + devices compared) with the '
               'executable spec adjudicating every disagreement; in addition the layouts of szx.rs (magic, machine '
               'ids, chunk dispatch, every chunk byte each process_*_block function uses, flag bits, length and range '
               'tests) and of sna.rs are translated from the source text on every run (tools/extract.py, tables '
               'SzxLayout, SnaLayout) and proved to be the zx-state / SNA formats and exactly what the model decodes '
               'with (Props/C14X).',
 'level_note': COMMON_NOTE + ' Partial: the whole-file refinement theorem is proved for the repaired loader '
               '(Fixes.all); for the unrepaired code the defects (lock leak, prefix/halt leak, HALTED PC, border '
               'device, AY generator, model mismatch) are proved as counter-examples per chunk / per load and the '
               'agreement of the remaining behaviour rests on the correspondence run with the Fixes.none model. '
               'External decompressor internals are not modelled.'}
