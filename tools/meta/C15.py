from _common import COMMON_NOTE

META = {'title': 'Loaders are total: any file or failing asset gives Ok/Err, never crash/hang',
 'lean_modules': ['ZxVerif.Props.C15'],
 'modelled_code': ['rustzx-core/src/host/io.rs (LoadableAsset::read_exact, SeekFrom, BufferCursor)',
                   'rustzx-core/src/emulator/snapshot/sna.rs (load)',
                   'rustzx-core/src/emulator/snapshot/szx.rs (load, process_*_block, decompress_zlib_stream)',
                   'rustzx-core/src/emulator/screenshot/scr.rs (load)',
                   'rustzx-core/src/emulator/mod.rs (load_snapshot, load_screen, load_tape, load_rom)',
                   'rustzx-core/src/zx/tape/tap.rs (Tap: from_asset, next_block_byte, next_block, process_clocks, '
                   'stop, play, rewind)',
                   'rustzx-core/src/emulator/fastload/tap.rs (fast_load_tap)',
                   'rustzx-core/src/zx/memory.rs (ram_page_data_mut: page existence), zx/controller.rs (write_7ffd), '
                   'zx/video/colors.rs (ZXColor::from_bits), rustzx-z80/src/cpu.rs (set_im): the assert/panic sites',
                   'vtx/src/lib.rs (Vtx::load), vtx/src/player.rs (Player::new)',
                   'rustzx-utils/src/io/gzip.rs (GzipAsset: exercised, decompressor not modelled)'],
 'assumptions': ['the Lean models ZxVerif/Model/Loaders/*.lean are hand transcriptions of the control flow (what decides '
                 'outcome, lengths, allocations); agreement with the Rust code is checked on every run by differential '
                 'execution of the outcome class (and of every tape operation result) on generated inputs',
                 'host assets behave like a positioned byte string with a fault script (short reads, failing '
                 'reads/seeks, EOF as Err or Ok(0)); an asset returning more bytes than asked, or different bytes on '
                 're-read, is outside the model',
                 'miniz_oxide (zlib), flate2 (gzip) and delharc (LH5) are parameters of the model: their result '
                 '(failure / produced length / panic) is an input; they are fuzzed, not proved',
                 'the repaired variants (Fix.all) are models of the repairs committed to /repo (fix commits listed in known_findings.json; diffs kept in proposed_fixes/applied-C15-*.diff); '
                 'which repairs the tree under test contains is detected per run from one witness input per site',
                 'frames after a load, gzip wrapping and Player::play are observed (no panic), not modelled',
                 'allocation = largest single request seen by a counting global allocator during the load call(s); '
                 'time = a watchdog in the parent process (4 s, 0.4 s for VTX) around a worker process'],
 'design_ref': 'DESIGN.md section 8, C15; section 9 #6, #8, #9, #13',
 'technique': 'Lean 4 proof over control-flow models with explicit partiality (panic sites, loop fuel, recorded '
              'allocations): a Hoare logic over the loader monad, invariants + termination measures; witnesses of the '
              'current violations by kernel evaluation; tied to the code by an outcome-class correspondence run in a '
              'sandboxed worker process',
 'level_text': 'Totality theorems in Lean 4 for every loader model (all byte strings, all fault scripts, all receiving '
               'machines): outcome Ok/Err, largest allocation <= input + 64 KiB (+ decoder output for VTX), steps <= '
               '4*input + 256, for the repaired variant of each model; for the code as it stands the partial theorems '
               'under explicit well-formedness guards plus a proved counter-example per guard. The models are tied to '
               'the Rust code on every run by a correspondence check of the outcome class (catch_unwind, watchdog, '
               'counting allocator) with the executable spec adjudicating.',
 'level_note': "Trusted: Lean 4.33 kernel; axioms propext, Classical.choice, Quot.sound; the hand transcription of the "
               "Rust control flow into the Lean models, tied to /repo's working tree on every run by the "
               "correspondence check (differential execution, seeded + structure-aware + fault sweeps, not "
               "exhaustive). Partial: the zlib/gzip/LH5 decompressors are parameters (fuzzed only; one panic inside "
               "delharc is reported as a finding); time and memory of the real code are observed by watchdog and "
               "counting allocator, the theorems bound the model's step and allocation counters; frames after a "
               "load are observed only.",
 'timeout_s': {'quick': 900, 'thorough': 6 * 3600}}
