from _common import COMMON_NOTE

META = {'title': 'Emulation is deterministic and independent of how the host drives it',
 'lean_modules': ['ZxVerif.Props.C16', 'ZxVerif.Props.C16Sys', 'ZxVerif.Props.C16X'],
 'extract': ['HostLoop'],
 'modelled_code': ['rustzx-core/src/emulator/mod.rs (emulate_frames: frame loop, cpu loop, event handling, '
                   'FrameCount/Max, stopwatch time-out)',
                   'rustzx-core/src/zx/controller.rs (passed_frames, reset_frame_counter, frames_count, '
                   'take_events, take_last_emulation_error; wait_internal/new_frame only as "a step may pass a '
                   'frame boundary and feeds the mixer")',
                   'rustzx-core/src/utils/mod.rs (EmulationMode)',
                   'rustzx-core/src/host/io.rs (LoadableAsset::read_exact, BufferCursor read/seek)',
                   'rustzx-core/src/host/mod.rs (Stopwatch, DebugInterface as scripted parameters)',
                   'rustzx-utils/src/io/{mod,gzip,file}.rs (DynamicAsset, GzipAsset, FileAsset as read/seek forwarders; '
                   'flate2 and the OS are parameters)',
                   'rustzx-core/src/zx/sound/mixer.rs (only as the second state component that is written, never read back)'],
 'assumptions': ['the CPU + controller step is an abstract deterministic function in the theorems (Machine.step); that the real '
                 'cpu.emulate + controller has no input besides the emulator state (no wall clock, addresses, threads) is '
                 'checked by running every scenario twice (second run on another thread with a perturbed heap), not proved',
                 'NonInterference (the core step does not read the mixer component: sample queue, last_pos, last_sample, volume, '
                 'use_ay/use_beeper, sound_enabled, AymPrecise resampler state) is a hypothesis of mixer_noninterference; on the '
                 'real code it is checked by the sound on/off, mixer-configuration and drain-policy drivings',
                 'the AY register file and the beeper latch belong to the core, not to the mixer component (read_ay_port reads the '
                 'register file)',
                 'host inputs (keys, play_tape) are applied at frame boundaries, i.e. between calls, as the property states',
                 'chunk scripts are productive (every read before the end of the data delivers at least one byte); a read of 0 bytes '
                 'in the middle of the data is an early end-of-file, not a chunking',
                 'a seek before the start of the file is reported as SeekBeforeStart by BufferCursor/GzipAsset and as '
                 'HostAssetImplFailed by FileAsset; no loader seeks there (only Start(p) and End(0) occur), so the difference is '
                 'not reachable from the emulator API',
                 'Max mode does not return while the host stopwatch never exceeds the limit (documented contract; the model has an '
                 'explicit out-of-fuel outcome and fuel_suffices_max states when it cannot occur)'],
 'design_ref': 'DESIGN.md section 8, C16 (and section 10: abstract loop with metamorphic tie)',
 'technique': 'Lean 4 proof over an abstract deterministic machine: trajectory invariant of the emulate_frames loop (induction over '
              'loop iterations, then over the call list), projection lemma for the mixer component, closed form of read_exact for '
              'all productive chunkings, induction over loader programs; tied to the code by (a) the metamorphic equation checked on '
              'the real emulator, (b) differential execution of emulate_frames vs. the loop model on fixed-timing programs, (c) '
              'read_exact/seek of every asset implementation vs. the asset model',
 'level_text': 'Theorems in Lean 4, for every deterministic machine, every list of emulate_frames calls (FrameCount(n)/Max, any time '
               'limit, any stopwatch readings, any breakpoint behaviour, stops and resumes): the state at a frame boundary equals '
               'runToFrame K (slicing_irrelevant, drivings_agree); the core projection is independent of the mixer state and of '
               'what the host does to it (mixer_noninterference); read_exact yields the same buffer/outcome/position for every '
               'productive chunking and EOF convention (read_exact_chunking) and so does every loader built from read_exact/seek '
               '(loader_chunking_independent). PARTIAL by construction (DESIGN section 10): the theorems are about an abstract '
               'loop; the loop theorems are now also instantiated for the composed Lean machine (Props/C16Sys.lean: Z80 model on the '
               'Spectrum bus model, zxMachine; crossed <= 1 and the Timed clock are proved for every regular state, so '
               'zx_slicing_irrelevant, zx_drivings_agree, zx_frames_accounting_*, zx_fuel_suffices_* carry no machine hypothesis '
               'besides Good of the start state), and that machine is tied to the real Emulator by the lock-step correspondence of '
               'C04/C05 (harness/src/sys.rs), not by C16\'s own check; the tie to the real CPU/controller is the metamorphic equation itself, checked on every run on the real '
               'emulator (scenario x driving pairs, every frame boundary, registers/RAM/banks/frame buffers/clock/audio), plus a '
               'differential check of the loop logic and of read_exact/seek against the compiled model; in addition emulate_frames '
               'is translated statement by statement from emulator/mod.rs on every run (tools/extract.py, table HostLoop) and the '
               'interpreter over the translated statements is proved equal to the loop model for every machine, host, fuel and '
               'stopwatch script (Props/C16X: src_loop_is_model, src_call_is_model), with the stop rules (>= n, strict > limit), the '
               'order of the event tests, the counter reset and the stopwatch reads pinned, and slicing_irrelevant / '
               'drivings_agree restated about drivings through the source\'s loop.',
 'level_note': COMMON_NOTE + ' C16 specifically: the main tie is METAMORPHIC ON THE REAL CODE, not a step-by-step model of the '
               'machine: the Lean theorems quantify over an abstract deterministic step function, and "the real emulator is such a '
               'function, with the mixer not read back and no hidden inputs" is established only by testing (same scenario under '
               'different drivings and run twice; hashes compared at every common frame boundary). The loop control logic of '
               'emulate_frames itself (stop reasons, number of steps per call, frame counter, stopwatch reads, where a call stops '
               'relative to the frame boundary) and read_exact/seek are tied to the model differentially. flate2 (gzip) and the '
               'operating system file API are parameters. Props/C16.lean uses no bv_decide; the instances in Props/C16Sys.lean '
               'inherit the bv_decide axioms of the invariant they build on (C04Sys.paging_port_low, C06.bank_lt, C06.rom_bit).',
 'timeout_s': {'quick': 600, 'thorough': 6 * 3600}}
