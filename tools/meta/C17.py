from _common import COMMON_NOTE

META = {'title': 'Input ports reflect exactly the controls held, for every event history',
 'lean_modules': ['ZxVerif.Props.C17', 'ZxVerif.Props.C17X', 'ZxVerif.Props.C17Y', 'ZxVerif.Props.C17Sys'],
 'extract': ['Keys', 'Sinclair', 'InputHandlers'],
 'modelled_code': ['rustzx-core/src/zx/keys.rs',
                   'rustzx-core/src/zx/joy/sinclair.rs',
                   'rustzx-core/src/zx/joy/kempston.rs',
                   'rustzx-core/src/zx/mouse/kempston.rs',
                   'rustzx-core/src/zx/controller.rs (send_key, send_sinclair_key, send_compound_key, '
                   'ULA/Kempston/mouse branches of read_io)',
                   'rustzx-core/src/emulator/mod.rs (send_* forwarding)'],
 'assumptions': ['the Lean model ZxVerif/Model/Input.lean is a hand transcription; its agreement with the '
                 'Rust code is checked by differential execution, exhaustively for single controls x 256 '
                 'selectors, sampled for histories',
                 'EAR input is held low (empty tape) during the correspondence runs; the theorem covers both '
                 'levels',
                 'the Kempston joystick port is read on an emulator without the mouse (with both enabled no '
                 'address selects the joystick alone)'],
 'design_ref': 'DESIGN.md section 8, C17',
 'technique': 'Lean 4 proof: representation invariant between key-matrix arrays and held-control sets, '
              'induction over event histories; tied to the code by differential correspondence',
 'level_text': 'Refinement theorem in Lean 4 (all event histories, all 256 selectors): the model of the key '
               'matrices/joystick/mouse state equals the held-set spec; the model is tied to the Rust code '
               'on every run by a correspondence check (exhaustive single-control sweep + seeded histories) '
               'with the executable spec adjudicating every disagreement.',
 'level_note': "Trusted: Lean 4.33 kernel; axioms propext, Classical.choice, Quot.sound (plus bv_decide's "
               'native axioms where the evidence file lists them); the hand transcription of the Rust code '
               "into the Lean model, which is tied to /repo's working tree on every run by the "
               'correspondence check (differential execution of real code vs. compiled model, exhaustive '
               'where stated, seeded random elsewhere). bv_decide is used for four 8/16-bit mouse-counter '
               'identities.'}
