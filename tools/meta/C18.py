from _common import COMMON_NOTE

META = {'title': 'The AY chip turns any register history into the sound its registers define',
 'lean_modules': ['ZxVerif.Props.C18', 'ZxVerif.Props.C18Filter', 'ZxVerif.Props.C18X', 'ZxVerif.Props.C18Y', 'ZxVerif.Props.C18Sys'],
 'extract': ['AyTables', 'AyDispatch'],
 'modelled_code': ['aym/src/backends/precise.rs (integer core: ToneChannel/noise/envelope state, ENVELOPES, '
                   'ENVELOPE_RESET_TO_MAX, slide_up/slide_down/hold_*/reset_segment, update_tone/update_noise/'
                   'update_envelope/update_mixer incl. the DAC index, set_tone/set_noise/set_mixer/set_volume/'
                   'set_envelope/set_envelope_shape, write_register, AY_DAC_TABLE, YM_DAC_TABLE, the pan table of '
                   'AymBackend::new)',
                   'aym/src/lib.rs (AyMode table in the documentation = the placement spec)',
                   'rustzx-core/src/zx/sound/ay.rs (ZXAyChip: select_reg, write, read)',
                   'rustzx-core/src/zx/controller.rs (AY branches of read_io/write_io, exercised through '
                   'verif_read_io/verif_write_io)',
                   'NOT modelled (IEEE-754): AymPrecise::process (interpolator), decimate (FIR), apply_dc_filter, '
                   'set_pan square roots'],
 'assumptions': ['the Lean model ZxVerif/Model/Ay.lean is a hand transcription of the integer core; it is tied to the '
                 'code on every run through the hook AymPrecise::verif_raw_tick (one real update_mixer per call): '
                 'integer generator state compared exactly, pre-filter left/right compared bit for bit with '
                 'dac[out]*pan recomputed from the model\'s DAC indices and tables',
                 'time unit of all theorems: one tick = one update_mixer = 8 chip clocks; that process() performs '
                 'f_clk/8 ticks per second of output is floating-point resampling and is only observed (zero-crossing '
                 'frequency, envelope contour) - and was false below f_clk/64 samples per second on the pinned commit (finding '
                 'C18/signal.low-rate, repaired in /repo by fix commit 9244141)',
                 'usize is 64 bits (the LFSR register is modelled as BitVec 64 and proved to stay below 2^17)',
                 'the noise period before the first write to R6 is the power-on 0 of the code (LFSR clocked every '
                 'tick); the property quantifies over written periods 1..31, the spec decides only those (and 0 as 1)',
                 'signal-level probes: one tone channel alone for frequencies up to a quarter of the output rate and '
                 'of the tick rate (TP >= 4); TP = 0 is checked to give the same stream as TP = 1',
                 '"bounded" is adjudicated against |sample| <= 8 (16 with the DC filter), the bound of the rational '
                 'analysis 2 * 3*sqrt(1/2) * l1(FIR) = 7.53 (interpolator overshoot x channel gains x FIR l1 norm '
                 '1.7743): fir_bounded_Q, interp_bounded_Q, dc_bounded_Q, chain_bound_numbers (Props/C18Filter.lean) '
                 'prove it for the formulas over Q (ZxVerif/Model/AyFilter.lean), not for the f64 code; that model is '
                 'tied to the code only through the FIR coefficient table, compared with the source text on every run '
                 '(skipped with a note if the text can no longer be parsed)',
                 'ZXAyChip::set_regs (snapshot restore without feeding the generator) belongs to C14, not to this '
                 'check'],
 'design_ref': 'DESIGN.md section 8, C18; Appendix E "C18 envelope"',
 'technique': 'Lean 4 proof: generic counter-divider lemma instantiated for tone, noise and envelope; envelope closed '
              'form by folding the step index into 96 classes and deciding the 16 x 96 step table in the kernel; '
              'decode invariant (generator parameters = decoded register file) by induction over arbitrary '
              'write/tick histories; bv_decide for the 64-bit vs 17-bit LFSR step; tied to the code by raw-tick '
              'differential correspondence plus spec probes and signal-level probes',
 'level_text': 'Theorems in Lean 4 over the integer core of AymPrecise and the ZXAyChip register file: for every '
               'history of register writes interleaved with ticks, each tone toggles exactly every TP ticks (12-bit, '
               '0 as 1), the 17-bit LFSR is clocked every 2*NP ticks, the envelope level n ticks after a shape write '
               'is the closed form of the chip definition for all 16 shapes and all periods, the DAC index is the '
               'gated amplitude for all mixer masks and volume bytes and stays inside the table, the DAC tables are '
               'strictly monotonic in the 4-bit volume, the pan table is the documented placement, the data port '
               'reads back the last value written and register numbers wrap modulo 16. System level '
               '(Props/C18Sys.lean): for every Z80 program run on the composed machine (any run length, CPU state, '
               'memory, both machines, any controller configuration, any number of generator ticks between the '
               'program\'s AY writes) the chip is the chip model folded over the program\'s AY port operations, the '
               'machine model\'s own AY latch and file equal the chip\'s, an IN from an AY port returns the value '
               'last written to the selected register (numbers modulo 16), every data write reaches the generator, and '
               'the tone, noise, envelope and mixer clauses hold for the generator the program has programmed with the '
               'periods taken from the machine\'s port-visible registers; adding the chip to the machine bus changes '
               'nothing for the program (bus-homomorphism theorem for the CPU model). The floating-point pipeline '
               '(interpolator, FIR decimator, DC filter) is not modelled: finiteness, boundedness, pitch, envelope '
               'contour and stereo energy of the produced samples are observed by the correspondence harness at '
               '8-384 kHz, not proved.',
 'level_note': COMMON_NOTE + ' PARTIAL: everything after update_mixer (IEEE-754 interpolation, FIR decimation, DC '
               'filter, and therefore "every sample is finite and bounded" and the mapping of ticks to output time) '
               'is observed by the harness only; fir_bounded_Q and its companions are proved over a Q-model of the filter formulas (with Mathlib nlinarith/ring), which says what exact arithmetic would give, not what the f64 code gives. bv_decide is used '
               'for one statement (the 64-bit LFSR step equals the 17-bit LFSR on 17-bit values); decide +kernel for '
               'the 16 x 96 envelope step table. Finding, fixed: on the pinned commit AymPrecise was unusable below f_clk/64 = 27.7 kHz '
               '(samples unbounded, pitch wrong): known_findings.json C18/signal.low-rate, fix commit 9244141.'}
