from _common import COMMON_NOTE

META = {'title': 'Audio arrives at exactly the configured rate and tracks the speaker bit',
 'lean_modules': ['ZxVerif.Props.C19', 'ZxVerif.Props.C19Sys', 'ZxVerif.Props.C19X'],
 'extract': ['MixerConsts'],
 'modelled_code': ['rustzx-core/src/zx/sound/mixer.rs (ZXMixer::process, new_frame, pop, gen_sample beeper part, '
                   'samples_per_frame)',
                   'rustzx-core/src/zx/sound/beeper.rs (ZXBeeper: ear/mic, sample factors 0.5 and 0.1)',
                   'rustzx-core/src/zx/controller.rs (wait_internal: frame_clocks, mixer.process, new_frame; '
                   'the ULA branch of write_io: wait 1, beeper.change_state, contention wait, wait 1)',
                   'rustzx-core/src/emulator/mod.rs (next_audio_sample; have_sound asserted true in FrameCount(1))',
                   'NOT modelled bit-exactly (IEEE-754): ZXController::frame_pos and '
                   'ZXMixer::sample_count_for_frame_fraction; the AY contribution to a sample; f64->f32 conversion'],
 'assumptions': ['the Lean model ZxVerif/Model/Mixer.lean is a hand transcription; its agreement with the Rust code is '
                 'checked by differential execution: every sample popped from the real Emulator on generated '
                 'wait/OUT/pop schedules is compared with the model',
                 'the sample index derived from the frame clock is an input of the model: the harness computes it with '
                 'the same f64 expression as the code and the driver checks, for every value, the properties the '
                 'theorems assume (PosOk: bounded by spf, spf from the frame length on, within [q-1, q] of the rational '
                 'index q = floor(spf*t/L)); the theorems are proved for every index function with PosOk and PosOk is '
                 'proved for the rational index',
                 'frame boundary = the wait_internal call that reaches clocks_frame; "drained at frame boundaries" = '
                 'the host empties the queue after the event during which that happened (hooks) / after every '
                 'emulate_frames call in FrameCount(1) mode (real Z80 programs)',
                 'contention delays inside OUT (0xFE) are observed (frame clock before/after the call), not modelled '
                 'here (C04)',
                 'a sample is identified with the beeper level (ear, mic) it was generated from; with volume 0 or the '
                 'beeper disabled only counts are compared',
                 'with the AY enabled but silent its contribution is 0.0 and is compared bit for bit; with the AY '
                 'sounding only finiteness and the bound volume/200 x (0.6 + 16) are observed'],
 'design_ref': 'DESIGN.md section 8, C19',
 'technique': 'Lean 4 proof: invariant of the always-drain regime (queue length = samples generated in the current '
              'frame) by induction over arbitrary event lists gives exactly spf per frame; a one-line inductive bound '
              'gives queue < 2*spf under every drain behaviour; a stretch-of-waits lemma gives the position of a '
              'speaker edge; tied to the code by differential correspondence with the executable spec adjudicating',
 'level_text': 'Theorems in Lean 4 over the mixer/frame-clock model: for all wait schedules, all sample rates and frame '
               'lengths, a host that drains at every frame boundary receives exactly floor(rate/50) samples per frame; '
               'for all schedules and all drain behaviours the queue stays below two frames of samples; a level change '
               'at frame clock t shows from sample floor(spf*t/L) on, i.e. in the sample slot containing t; every '
               'beeper sample is one of 0, 0.1, 0.5, 0.6 times volume/200. System level (C19Sys): the three statements '
               'instantiated with the wait_internal calls and ULA writes the composed machine issues under every program '
               '(the sound machine stays at the machine\'s frame clock, frame count and speaker bits; one batch of '
               'floor(rate/50) samples per completed machine frame). The model is tied to the Rust code on every '
               'run by a correspondence check (7 rates x 3 drain policies x 2 machines on hook-driven schedules, real '
               'Z80 programs through emulate_frames, AY sounding for boundedness).',
 'level_note': COMMON_NOTE + ' PARTIAL: the f64 computation of the frame position (frame_pos, '
               'sample_count_for_frame_fraction) is not modelled bit-exactly - its result enters the model as an '
               'input whose assumed properties are checked at run time on every call, not proved; the AY part of a '
               'sample and "finite" for the f32 samples are observed only. No bv_decide in C19 itself; C19Sys uses it for two bit-test lemmas and inherits the native axioms of C04Sys/C06. Finding, fixed: '
               'C19/bounded.ay-low-rate (root cause C18/signal.low-rate, fix commit 9244141 in /repo).'}
