from _common import COMMON_NOTE

META = {'title': 'VTX playback is frame-accurate and independent of play() chunking',
 'lean_modules': ['ZxVerif.Props.C20', 'ZxVerif.Props.C20X'],
 'extract': ['VtxLayout'],
 'modelled_code': ['vtx/src/player.rs (Player::new, update_ay, play: mono and stereo loops)',
                   'vtx/src/lib.rs (Vtx::frames_count, Vtx::frame_registers, the transposition loop of Vtx::load)'],
 'assumptions': ['the Lean model ZxVerif/Model/Vtx.lean is a hand transcription; its agreement with the Rust code is '
                 'checked by differential execution on seeded random register logs x rates x player frequencies x '
                 'mono/stereo x random play() buffer-length lists',
                 'the sound chip is an arbitrary deterministic backend in the theorems; the correspondence uses a '
                 'recording AymBackend (call log = observation) and the real AymPrecise (stream equality only)',
                 'the schedule spec assumes spf = floor(rate/player_frequency) > 0; for spf = 0 and for '
                 'player_frequency = 0 (division-by-zero panic in Player::new) only code = model is checked',
                 'Vtx::load is exercised on well-formed files built by the harness (literal-only LH5 stream); the LH5 '
                 'decoder (delharc) is outside the model; malformed files belong to C15',
                 'rewind/rewind_loop/set_frame are not part of the property and are not modelled'],
 'design_ref': 'DESIGN.md section 8, C20; Appendix E "C20 schedule"',
 'technique': 'Lean 4 proof: composition lemma for the sample loop (run (a+b) = run b after run a) gives chunking '
              'invariance for all partitions; cursor invariant frame*spf+frameSample = samples delivered, by induction, '
              'gives the frame schedule, the total and the end-of-log behaviour; index arithmetic for the transposition; '
              'tied to the code by differential correspondence',
 'level_text': 'Theorems in Lean 4 over the player model with an abstract backend: for all register logs, all spf > 0, '
               'all lists of buffer lengths (mono and stereo, incl. 0, 1 and odd lengths) successive play() calls equal '
               'one run (state, backend call sequence, sample stream); the call sequence equals the index-based schedule '
               'spec (frame k written before sample k*spf, R13=0xFF skipped, end after frames*spf); the loader '
               'transposition is the frame-major listing for every frame count and has a left inverse. The model is tied '
               'to the Rust code on every run by a correspondence check (recording backend: every play call compared; '
               'real AymPrecise: bit-exact stream equality between chunkings; Vtx::load on generated files); in '
               'addition the header reads, the un-transposition index expression, samples_per_frame, the R13 rule, the '
               'write order and the cursor arithmetic of both loops of play are translated from lib.rs / player.rs on '
               'every run (tools/extract.py, table VtxLayout) and an interpreter over the translated pieces is proved '
               'equal to the model for every state (Props/C20X), so the schedule and transposition theorems are '
               'restated about the source text.',
 'level_note': COMMON_NOTE + ' No bv_decide in C20. The real AymPrecise backend enters only through the observed '
               'stream-equality check (its determinism is what the abstract-backend theorem assumes); f64 sample '
               'conversion (PlayerSample) is observed through the f64 instance only.'}
