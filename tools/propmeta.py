"""Static description of every claimed property (read by ./check and tools/gen_manifest.py).
One file per claimed property: tools/meta/Cxx.py defining META = {...} (see tools/meta/C17.py)."""
import glob, os, sys

_HERE = os.path.dirname(os.path.abspath(__file__))
sys.path.insert(0, os.path.join(_HERE, "meta"))
from _common import COMMON_NOTE  # noqa: E402,F401

META = {}
for _f in sorted(glob.glob(os.path.join(_HERE, "meta", "C*.py"))):
    _ns = {}
    exec(compile(open(_f).read(), _f, "exec"), _ns)
    META[os.path.basename(_f)[:-3]] = _ns["META"]

ALL_IDS = ["C%02d" % i for i in range(1, 21)]
NOT_YET = {}
for _i in ALL_IDS:
    if _i not in META:
        NOT_YET[_i] = ("not claimed yet: the model/theorems/correspondence for this property are still being built "
                       "(see DESIGN.md section 11 for the order)")
