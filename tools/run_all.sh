#!/bin/sh
# Runs every claimed check once (quick tier unless VERIF_TIER is set) and prints a summary.
cd "$(dirname "$0")/.."
rc=0
for p in $(python3 -c "
import json
print(' '.join(c['property_id'] for c in json.load(open('MANIFEST.json'))['checks']))"); do
  out=$(./check "$p" 2>/dev/null); r=$?
  echo "$out" | grep -E "^(VIOLATION|KNOWN-FINDING|ERROR)" | sed 's/^\(KNOWN-FINDING: property=[A-Z0-9]*\).*\[\(.*\)\]$/\1 [\2]/'
  echo "$out" | tail -1
  [ $r -ne 0 ] && rc=1
done
exit $rc
