#!/usr/bin/env python3
"""
Re-runs the checks against every kept seeded change (/verif/seeded/<id>/patch.diff + meta.json).

For each seeded change: copy /repo to a scratch directory (outside /repo and /verif), apply the
patch there, run `ZX_REPO=<scratch> ./check <property>` and report whether a VIOLATION was raised.
/repo itself is never touched. usage: tools/seeded.py [id ...]
"""
import json, os, shutil, subprocess, sys

ROOT = os.path.dirname(os.path.dirname(os.path.abspath(__file__)))
SCRATCH = os.environ.get("ZX_SEEDED_SCRATCH", "/tmp/zx-seeded-run-%d" % os.getpid())


def main():
    ids = sys.argv[1:] or sorted(os.listdir(os.path.join(ROOT, "seeded")))
    rows = []
    scratch = None
    for sid in ids:
        d = os.path.join(ROOT, "seeded", sid)
        if not os.path.exists(os.path.join(d, "meta.json")):
            continue
        meta = json.load(open(os.path.join(d, "meta.json")))
        # one directory per seeded change: ./check cleans the crates under test when the path it is
        # pointed at changes, so nothing built from the previous change can be reused
        shutil.rmtree(scratch, ignore_errors=True) if scratch else None
        scratch = SCRATCH + "-" + sid
        shutil.rmtree(scratch, ignore_errors=True)
        subprocess.run(["rsync", "-a", "--exclude", "target", "--exclude", ".git", "/repo/", scratch + "/"], check=True)
        p = subprocess.run(["patch", "-p1", "-s", "--no-backup-if-mismatch", "-i", os.path.join(d, "patch.diff")], cwd=scratch)
        if p.returncode != 0:
            rows.append((sid, meta["property"], "PATCH DOES NOT APPLY", ""))
            continue
        env = dict(os.environ, ZX_REPO=scratch)
        for prop in meta.get("check_with", [meta["property"]]):
            r = subprocess.run([os.path.join(ROOT, "check"), prop], cwd=ROOT, env=env, stdout=subprocess.PIPE,
                               stderr=subprocess.DEVNULL, text=True)
            viol = [l for l in r.stdout.splitlines() if l.startswith("VIOLATION")]
            concrete = [l for l in viol if not l.rstrip().endswith("no-failing-input-found")]
            shown = (concrete or viol or [""])[0]
            if viol:
                shown += "   [%d with a failing input, %d without]" % (len(concrete), len(viol) - len(concrete))
            rows.append((sid, prop, "DETECTED" if viol else "MISSED (rc=%d)" % r.returncode, shown))
    shutil.rmtree(scratch, ignore_errors=True) if scratch else None
    # point the harness back at /repo
    subprocess.run([os.path.join(ROOT, "check"), "C06"], cwd=ROOT, stdout=subprocess.DEVNULL, stderr=subprocess.DEVNULL)
    subprocess.run(["git", "-C", ROOT, "checkout", "--", "evidence", "lean/ZxVerif/Extracted"], stderr=subprocess.DEVNULL)
    for r in rows:
        print("%-28s %-4s %-22s %s" % r)
    return 0 if all(r[2] == "DETECTED" for r in rows) else 1


if __name__ == "__main__":
    sys.exit(main())
