#!/usr/bin/env python3
"""Validates MANIFEST.json and every evidence file against the given schemas (run with python3-vt)."""
import json, glob, sys
import jsonschema
ok = True
m = json.load(open('/verif/MANIFEST.json'))
jsonschema.validate(m, json.load(open('/root/.vp/MANIFEST.schema.json')))
es = json.load(open('/root/.vp/EVIDENCE.schema.json'))
for f in sorted(glob.glob('/verif/evidence/*.json')):
    try:
        e = json.load(open(f)); jsonschema.validate(e, es)
        c = e['coverage']
        print(f, 'ok', c.get('obligations'), c.get('discharged'), c.get('evaluations'), c.get('distinct_nontrivial'), e['violations'])
    except Exception as ex:
        ok = False; print(f, 'INVALID', str(ex)[:300])
ids = {c['property_id'] for c in m['checks']} | {c['property_id'] for c in m.get('not_applicable', [])}
print('manifest ok; properties covered:', len(ids))
sys.exit(0 if ok else 1)
